"""Property-level predicates evaluated on recorded executions."""

from __future__ import annotations

import glob
import os
import re
import shutil
import tempfile
from typing import Any

import torch

from harness import progs as progs_mod
from harness.tlc import run_tlc

COMM_MONITORS = {
    'foreign_group', 'slot_mismatch', 'root_not_member',
    'new_group_mismatch', 'stall', 'incomplete_slot',
    'incomplete_new_group', 'timeout', 'max_actions', 'apply_error',
    'callback_error', 'non_dense_buffer',
}


def strategy_name(cfg: Any) -> str:
    if cfg.k == cfg.W:
        return 'comm_opt'
    if cfg.k == 1:
        return 'mem_opt'
    return 'hybrid_opt'


def phase_of(ctx: Any) -> str:
    if isinstance(ctx, dict):
        return str(ctx.get('op'))
    if isinstance(ctx, list):
        ops = sorted({phase_of(c) for c in ctx})
        return '+'.join(ops)
    if isinstance(ctx, str) and ctx.startswith('{'):
        m = re.search(r"'op': '(\w+)'", ctx)
        return m.group(1) if m else ctx
    return str(ctx)


def comm_issues(res: Any) -> list[tuple[str, dict[str, Any]]]:
    """C03-level problems of one execution: (description, signature)."""
    out = []
    strat = strategy_name(res.cfg)
    seen = set()
    for m in res.monitors:
        if m['kind'] not in COMM_MONITORS:
            continue
        if m['kind'] == 'slot_mismatch':
            phase = '+'.join(sorted({phase_of(c) for c in m.get('ctx', [])}))
        elif m['kind'] == 'stall':
            ctxs = (res.stall or {}).get('ctx', {})
            phase = '+'.join(sorted({phase_of(c) for c in ctxs.values()}))
        else:
            phase = phase_of(m.get('ctx'))
        sig = {'monitor': m['kind'], 'phase': phase, 'strategy': strat}
        key = tuple(sorted(sig.items()))
        if key in seen:
            continue
        seen.add(key)
        out.append((f'{m["kind"]} during {phase} ({strat}): '
                    f'{ {k: v for k, v in m.items() if k != "kind"} }'[:600],
                    sig))
    return out


def rank_errors(res: Any) -> list[tuple[int, str, str]]:
    """(rank, phase, error) for ranks that raised (SimStall excluded)."""
    out = []
    for r, e in enumerate(res.errors):
        if e is None or e.startswith('SimStall'):
            continue
        rr = res.ranks[r]
        phase = 'construct'
        if rr is not None and rr.log and not rr.log[-1].get('ok', True):
            phase = rr.log[-1]['op'][0]
        out.append((r, phase, e))
    return out


_ACT = re.compile(r'^\\\* <(\w+)(?:\((-?\d+)\))? line')


def parse_schedule(path: str) -> list[tuple]:
    sched: list[tuple] = []
    with open(path) as f:
        for line in f:
            m = _ACT.match(line)
            if not m:
                continue
            a, p = m.group(1), m.group(2)
            if a in ('Issue', 'Wait', 'NGEnter', 'NGLeave'):
                sched.append(('rank', int(p)))
            elif a == 'Complete':
                sched.append(('complete', int(p)))
            elif a == 'NGComplete':
                sched.append(('complete', -1))
    return sched


def tlc_schedules(progs: dict, groups: dict, num: int, seed: int,
                  depth: int | None = None) -> tuple[list[list[tuple]], Any]:
    """Behaviours of Comm over the given programs (TLC -simulate)."""
    total = sum(len(p) for p in progs.values())
    depth = depth or (2 * total + 50)
    d = tempfile.mkdtemp(prefix='verif_sim_')
    try:
        name = 'MC_CommSim'
        mod = progs_mod.comm_module(name, progs, groups)
        r = run_tlc(name, cfg_text=progs_mod.comm_cfg(False),
                    extra_modules={name: mod}, workers=1,
                    simulate=f'file={d}/tr,num={num}', depth=depth,
                    seed=seed, timeout=300)
        scheds = [parse_schedule(p) for p in sorted(glob.glob(f'{d}/tr_*'))]
        return scheds, r
    finally:
        shutil.rmtree(d, ignore_errors=True)


def grads_bitwise_equal(a: dict[str, torch.Tensor],
                        b: dict[str, torch.Tensor]) -> bool:
    if a.keys() != b.keys():
        return False
    return all(torch.equal(a[k], b[k]) for k in a)


def rel_diff(a: torch.Tensor, b: torch.Tensor) -> float:
    if a.shape != b.shape:
        return float('inf')
    a64, b64 = a.double(), b.double()
    d = (a64 - b64).norm().item()
    n = max(a64.norm().item(), b64.norm().item(), 1e-30)
    return d / n
