"""Validate traces recorded by harness/tracer.py against spec/KfacTrace.tla."""

from __future__ import annotations

import json
import os
import random
import re
from typing import Any

import torch

from harness import kaisa, refreplay
from harness.progs import instantiate
from harness.tlc import run_tlc, tla, SPEC_DIR, TLCResult
from harness.tracer import Tracer

EVENT_KEYS = ['act', 'arg', 'raised', 'ndec', 'steps', 'F', 'I', 'chA', 'chG',
              'accA', 'accG', 'accKnown', 'hasInv', 'uniform']


def _cfg_key(c: dict[str, Any]) -> str:
    return json.dumps(c, sort_keys=True)


def constants_for(c: dict[str, Any], sched_args: list[int] = ()) -> str:
    tables: dict[str, list[int]] = {}

    def spec(v: Any, nm: str) -> Any:
        if isinstance(v, dict):
            tables[nm] = v['table']
            return nm
        return v

    cfg = kaisa.Config(
        F=spec(c['F'], 'tabF'), I=spec(c['I'], 'tabI'),
        in_hook=c['in_hook'], accum=c['accum'],
        damping={'const': 0.001, 'fn': 'damp_lin', 'none': None}[
            c['kinds']['damping']],
        decay={'const': 0.95, 'fn': 'decay_lin', 'none': None}[
            c['kinds']['factor_decay']],
        kl_clip={'const': 0.001, 'fn': 'kl_lin', 'none': None}[
            c['kinds']['kl_clip']],
        lr={'const': 0.1, 'fn': 'lr_lin', 'none': None}[c['kinds']['lr']],
        sched=dict(c.get('sched') or {}))
    return refreplay.ref_constants(
        cfg, ['Train', 'Step', 'Eval', 'Reset', 'ResetMid', 'FwdOnly', 'Save',
              'Load', 'Mem', 'Sched'], [1], sorted(set(sched_args) | {-1}),
        10 ** 6, False, int_tables=tables or None)


def check_group(c: dict[str, Any], traces: list[list[dict[str, Any]]],
                props: bool = True, tag: str = '') -> TLCResult:
    inst = 'MC_KfacRefT' + tag
    name = 'MC_KfacTrace' + tag
    sargs = [e['arg'] for t in traces for e in t if e['act'] == 'sched']
    mod = instantiate('KfacRef', inst, constants_for(c, sargs))
    evs = [[{k: e[k] for k in EVENT_KEYS} for e in t] for t in traces]
    src = open(os.path.join(SPEC_DIR, 'KfacTrace.tla')).read()
    src = src.replace('KFACREF_INSTANCE', inst).replace(
        'MODULE KfacTrace', 'MODULE ' + name)
    src = re.sub(r'\\\* BEGIN-CONSTANTS.*?\\\* END-CONSTANTS',
                 lambda _: 'Traces == ' + tla(evs), src, flags=re.S)
    cfgt = 'SPECIFICATION TSpec\nCHECK_DEADLOCK TRUE\n'
    if props:
        cfgt += ''.join(f'PROPERTY {p}\n' for p in refreplay.PROPS
                        if p not in ('RoundTrip',))
    return run_tlc(name, cfg_text=cfgt, extra_modules={inst: mod, name: src},
                   workers=1, deadlock=True, timeout=1200)


def validate(records: list[dict[str, Any]], tag: str = '',
             ) -> dict[str, Any]:
    """records: Tracer.export().  Returns rejected traces with the event the
    specification cannot explain."""
    groups: dict[str, list[int]] = {}
    skipped = []
    for i, r in enumerate(records):
        if not r['supported']:
            skipped.append((i, r['why']))
            continue
        if not r['events']:
            continue
        groups.setdefault(_cfg_key(r['cfg']), []).append(i)
    from concurrent.futures import ThreadPoolExecutor

    def one(arg: tuple[int, str, list[int]]) -> dict[str, Any]:
        gi, key, idxs = arg
        c = json.loads(key)
        todo = list(idxs)
        res = {'rejected': [], 'states': 0, 'trans': 0, 'nev': 0}
        while todo:
            r = check_group(c, [records[i]['events'] for i in todo],
                            tag=f'{tag}{gi}')
            res['states'] += r.distinct
            res['trans'] += r.generated
            if r.ok:
                res['nev'] += sum(len(records[i]['events']) for i in todo)
                break
            # the last state of the counterexample holds t (trace) and l
            text = (r.trace[-1].get('_text', '') if r.trace else '') or ''
            mt = re.search(r'/\\ t = (\d+)', text)
            ml = re.search(r'/\\ l = (\d+)', text)
            if not (mt and ml):
                raise RuntimeError('cannot locate the rejected event:\n'
                                   + r.error_text[:800])
            ti, li = int(mt.group(1)), int(ml.group(1))
            bad = todo[ti - 1]
            evs = records[bad]['events']
            res['rejected'].append({
                'trace': bad, 'at': li, 'violated': str(r.violated),
                'event': evs[li - 1] if 0 < li <= len(evs) else None,
                'prefix': [(e['act'], e['arg']) for e in evs[:li]][-12:],
                'cfg': c})
            todo.remove(bad)
        return res

    with ThreadPoolExecutor(max_workers=8) as ex:
        results = list(ex.map(one, [(gi, k, v) for gi, (k, v)
                                    in enumerate(groups.items())]))
    rejected = [x for r in results for x in r['rejected']]
    states = sum(r['states'] for r in results)
    trans = sum(r['trans'] for r in results)
    nev = sum(r['nev'] for r in results)
    return {'rejected': rejected, 'skipped': skipped, 'states': states,
            'transitions': trans, 'events': nev,
            'traces': sum(len(v) for v in groups.values())}


# ---- drivers ---------------------------------------------------------------
def run_repo_training_loop() -> list[dict[str, Any]]:
    """The repository's own end-to-end training loop
    (tests/training_test.py: train), unmodified, under the tracer."""
    import importlib
    import sys
    from harness.common import REPO

    if REPO not in sys.path:
        sys.path.insert(0, REPO)
    mod = importlib.import_module('tests.training_test')
    with Tracer() as tr:
        mod.train(1)
    return tr.export()


def random_driver(seed: int, n_ops: int = 40) -> list[dict[str, Any]]:
    """A driver that knows nothing about the specification: random public
    API calls on a small model, including resumes into fresh instances."""
    from kfac.preconditioner import KFACPreconditioner
    import copy
    import io

    rng = random.Random(seed)
    torch.manual_seed(seed)
    F = rng.choice([1, 2, 3, lambda s: 1 if s < 3 else 2])
    I = rng.choice([1, 2, 4, lambda s: 2 if s < 2 else 3])
    in_hook = rng.random() < 0.5
    accum = rng.choice([1, 1, 2, 3])
    kw = dict(factor_update_steps=F, inv_update_steps=I,
              update_factors_in_hook=in_hook, accumulation_steps=accum,
              damping=rng.choice([0.01, lambda s: 0.01 * (s + 1)]),
              kl_clip=rng.choice([0.001, None]),
              compute_method=rng.choice(['eigen', 'inverse']))

    from kfac.scheduler import LambdaParamScheduler
    use_sched = (not callable(F)) and (not callable(I)) and rng.random() < 0.5
    skw: dict[str, Any] = {}
    if use_sched:
        # growing intervals (they must stay positive), shrinking damping
        skw['factor_update_steps_lambda'] = kaisa.FUNCS[
            rng.choice(['dbl_after1', 'dbl'])]
        if rng.random() < 0.5:
            skw['inv_update_steps_lambda'] = kaisa.FUNCS['dbl_after1']
        if not callable(kw['damping']):
            skw['damping_lambda'] = kaisa.FUNCS['half']
    holder: dict[str, Any] = {}

    def make() -> tuple[Any, Any]:
        m = torch.nn.Sequential(torch.nn.Linear(4, 3), torch.nn.Tanh(),
                                torch.nn.Linear(3, 2))
        p = KFACPreconditioner(m, **kw)
        holder['sched'] = LambdaParamScheduler(p, **skw) if use_sched else None
        return m, p

    with Tracer() as tr:
        model, pre = make()
        have_grads = False
        saved = None
        for _ in range(n_ops):
            op = rng.choice(['train', 'train', 'train', 'step', 'step', 'eval',
                             'fwdonly', 'reset', 'save', 'mem', 'resume',
                             'sched'])
            x = torch.randn(rng.randint(1, 5), 4)
            try:
                if op == 'train':
                    model.train()
                    model.zero_grad()
                    for _mb in range(rng.randint(1, accum)):
                        (model(x) ** 2).sum().backward()
                    have_grads = True
                elif op == 'eval':
                    model.eval()
                    model.zero_grad()
                    (model(x) ** 2).sum().backward()
                    model.train()
                    have_grads = True
                elif op == 'fwdonly':
                    model.train()
                    model(x)
                elif op == 'step':
                    if not have_grads:
                        continue
                    pre.step()
                elif op == 'reset':
                    pre.reset_batch()
                elif op == 'save':
                    sd = pre.state_dict(include_factors=rng.random() < 0.8)
                    buf = io.BytesIO()
                    torch.save(sd, buf)
                    buf.seek(0)
                    saved = torch.load(buf, weights_only=False)
                elif op == 'mem':
                    pre.memory_usage()
                elif op == 'sched':
                    if holder.get('sched') is None or pre.steps > 6:
                        continue
                    holder['sched'].step(rng.choice([None, None, 1, 2]))
                elif op == 'resume' and saved is not None:
                    grads = [None if p.grad is None else p.grad.clone()
                             for p in model.parameters()]
                    model, pre = make()
                    for p, g in zip(model.parameters(), grads):
                        p.grad = g
                    pre.load_state_dict(copy.deepcopy(saved),
                                        compute_inverses=rng.random() < 0.7)
            except Exception:  # noqa: BLE001  (the event records the raise)
                break
    return tr.export()
