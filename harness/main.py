"""./check <Cxx> [--tier quick|thorough] [--replay FILE]"""

from __future__ import annotations

import argparse
import importlib
import os
import sys
import traceback


def main() -> int:
    ap = argparse.ArgumentParser()
    ap.add_argument('prop')
    ap.add_argument('--tier', default=os.environ.get('VERIF_TIER', 'quick'),
                    choices=['quick', 'thorough'])
    ap.add_argument('--replay', default=None)
    a = ap.parse_args()
    prop = a.prop.upper()
    from harness.common import setup_repo_import, seed_from_env

    try:
        setup_repo_import()
        mod = importlib.import_module(f'harness.drivers.{prop.lower()}')
        if a.replay:
            return int(mod.replay(a.replay))
        return int(mod.main(a.tier, seed_from_env(0)))
    except SystemExit:
        raise
    except BaseException:  # noqa: BLE001
        traceback.print_exc()
        print(f'MACHINERY-FAILURE property={prop}')
        return 2


if __name__ == '__main__':
    sys.exit(main())
