"""Minimal stand-in for the two DeepSpeed classes kfac.gpt_neox touches.

DeepSpeed is not installed in this sandbox and cannot be.  kfac.gpt_neox only
needs deepspeed.runtime.pipe.topology.PipeModelDataParallelTopology (a pure
cartesian-grid rank map) and deepspeed.pipe.PipelineModule (isinstance check
and .topology()).  This stub re-implements exactly those with DeepSpeed's
conventions (axes ['pipe', 'data', 'model'], row-major rank order).  It is
part of the trusted base of C11 / C12 / C18.
"""
