"""ProcessTopology / PipeModelDataParallelTopology (DeepSpeed conventions)."""
from collections import namedtuple
from itertools import product


class ProcessTopology:
    def __init__(self, axes, dims):
        self.axes = list(axes)
        self.dims = list(dims)
        self.ProcessCoord = namedtuple('ProcessCoord', axes)
        self.mapping = {}
        ranges = [range(d) for d in dims]
        for global_rank, coord in enumerate(product(*ranges)):
            key = self.ProcessCoord(**{a: coord[self.axes.index(a)]
                                       for a in self.axes})
            self.mapping[key] = global_rank

    def get_rank(self, **coord_kwargs):
        key = self.ProcessCoord(**coord_kwargs)
        return self.mapping[key]

    def get_dim(self, axis):
        if axis not in self.axes:
            return 0
        return self.dims[self.axes.index(axis)]

    def get_coord(self, rank):
        for coord, idx in self.mapping.items():
            if idx == rank:
                return coord
        raise ValueError(f'rank {rank} not found in topology.')

    def get_axis_comm_lists(self, axis):
        if axis not in self.axes:
            return []
        other_axes = [a for a in self.axes if a != axis]
        lists = []
        ranges = [range(self.get_dim(a)) for a in other_axes]
        for coord in product(*ranges):
            other_keys = {a: coord[other_axes.index(a)] for a in other_axes}
            sub_list = []
            for axis_key in range(self.get_dim(axis)):
                key = self.ProcessCoord(**other_keys, **{axis: axis_key})
                sub_list.append(self.mapping[key])
            lists.append(sub_list)
        return lists

    def world_size(self):
        n = 1
        for d in self.dims:
            n *= d
        return n


class PipeModelDataParallelTopology(ProcessTopology):
    def __init__(self, num_pp, num_mp, num_dp):
        super().__init__(axes=['pipe', 'data', 'model'],
                         dims=[num_pp, num_dp, num_mp])
