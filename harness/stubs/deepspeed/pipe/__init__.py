import torch


class PipelineModule(torch.nn.Module):
    """Stand-in: a module that knows its topology."""

    def __init__(self, layers=None, topology=None):
        super().__init__()
        self._topo = topology
        if layers is not None:
            self.layers = layers

    def topology(self):
        return self._topo
