"""Run families of KfacRef configurations: TLC property check + generation of
behaviours + lock-step replay in worker processes."""

from __future__ import annotations

import json
from concurrent.futures import ThreadPoolExecutor
from typing import Any

from harness import kaisa, refreplay
from harness.common import chash
from harness.par import pmap


def fam(cfg: dict[str, Any], alphabet: list[str], depth: int,
        micro: list[int] | None = None, sched_args: list[int] | None = None,
        exhaustive: bool = True, num: int = 0, spec_depth: int | None = None,
        strict: bool = False, replay_cfgs: list[dict[str, Any]] | None = None,
        save_args: tuple = (True, False), load_args: tuple = (True, False),
        script: list | None = None) -> dict[str, Any]:
    """replay_cfgs: configurations under which the generated behaviours are
    replayed (default: the generating one); they must agree with cfg on every
    field KfacRef depends on (intervals, hooks, hyper-parameters)."""
    return {'strict': strict, 'replay_cfgs': replay_cfgs, 'cfg': cfg,
            'ckw': {'save_args': save_args, 'load_args': load_args,
                    **({'script': script} if script else {})}, 'alphabet': alphabet, 'depth': depth,
            'micro': micro or [1], 'sched_args': sched_args or [-1],
            'exhaustive': exhaustive, 'num': num,
            'spec_depth': spec_depth or depth}


def _tlc_family(arg: tuple[dict[str, Any], int, bool]) -> dict[str, Any]:
    f, seed, do_spec = arg
    cfg = kaisa.Config(**f['cfg'])
    out: dict[str, Any] = {'spec': None}
    if do_spec:
        r = refreplay.check_spec(cfg, f['alphabet'], f['micro'],
                                 f['sched_args'], f['spec_depth'], workers=2,
                                 strict=f['strict'], **f['ckw'])
        out['spec'] = {'ok': r.ok, 'violated': r.violated,
                       'distinct': r.distinct, 'generated': r.generated,
                       'error': r.error_text[:1200]}
    hs, r = refreplay.gen_behaviours(
        cfg, f['alphabet'], f['micro'], f['sched_args'], f['depth'],
        f['num'], seed, exhaustive=f['exhaustive'], timeout=1800,
        strict=f['strict'], **f['ckw'])
    out['hs'] = hs
    out['gen'] = {'distinct': r.distinct, 'generated': r.generated}
    return out


def _replay_chunk(arg: tuple[dict[str, Any], list[list[dict]], int]) -> dict:
    cfgd, hs, seed = arg
    cfg = kaisa.Config(**cfgd)
    res = []
    agg: dict[str, float] = {}
    for h in hs:
        out = refreplay.replay(cfg, h, seed)
        for m in out.get('comm', []):
            out['mismatches'].append(
                {'cat': 'comm', 'at': (m.get('ctx') or {}).get('n', -1)
                 if isinstance(m.get('ctx'), dict) else -1,
                 'act': str((m.get('ctx') or {}).get('op'))
                 if isinstance(m.get('ctx'), dict) else 'run',
                 'msg': f'{m["kind"]}: {str(m)[:200]}'})
        for k, v in out['stats'].items():
            if k.startswith('max'):
                agg[k] = max(agg.get(k, 0.0), v)
            else:
                agg[k] = agg.get(k, 0) + v
        if out['mismatches']:
            res.append({'hist': [[x['act'], x['arg']] for x in h],
                        'h': h, 'mismatches': out['mismatches']})
    return {'bad': res, 'stats': agg, 'n': len(hs)}


def run_families(families: list[dict[str, Any]], seed: int,
                 max_replay: int | None = None, do_spec: bool = True,
                 prefer: Any = None, nseeds: int = 1) -> dict[str, Any]:
    """Returns aggregate: spec results, mismatching behaviours, statistics."""
    with ThreadPoolExecutor(max_workers=6) as ex:
        gens = list(ex.map(_tlc_family,
                           [(f, seed + i, do_spec)
                            for i, f in enumerate(families)]))
    jobs = []
    import random
    rng = random.Random(seed)
    total_h = 0
    for f, g in zip(families, gens):
        hs = g['hs']
        if max_replay is not None and len(hs) > max_replay:
            if prefer is not None:
                # keep the behaviours the property cares most about, ties
                # broken at random
                hs = sorted(hs, key=lambda h: (-prefer(h), rng.random()))
                hs = hs[:max_replay]
            else:
                hs = rng.sample(hs, max_replay)
        rcfgs = f['replay_cfgs'] or [f['cfg']]
        if any(c.get('W', 1) > 1 for c in rcfgs):
            hs = [h for h in hs if not h[-1]['x'].get('raises')]
        for j, rc in enumerate(rcfgs):
            sub = hs if len(rcfgs) == 1 else hs[j::len(rcfgs)]
            total_h += len(sub) * nseeds
            n = max(1, len(sub) // 24)
            for i in range(0, len(sub), n):
                for sj in range(nseeds):   # several model / data seeds
                    jobs.append((rc, sub[i:i + n], seed + 1000 * sj))
    outs = pmap(_replay_chunk, jobs)
    bad = []
    stats: dict[str, float] = {}
    for (cfgd, _, _), o in zip(jobs, outs):
        for b in o['bad']:
            b['cfg'] = cfgd
            bad.append(b)
        for k, v in o['stats'].items():
            if k.startswith('max'):
                stats[k] = max(stats.get(k, 0.0), v)
            else:
                stats[k] = stats.get(k, 0) + v
    sample = None
    for f, g in zip(families, gens):
        for h in g['hs']:
            if any(x['act'] == 'step' for x in h):
                sample = {'cfg': f['cfg'],
                          'history': [[x['act'], x['arg']] for x in h],
                          'last_obs': h[-1]['obs'], 'last_x': h[-1]['x']}
                break
        if sample:
            break
    return {
        'spec': [g['spec'] for g in gens],
        'states': sum((g['spec'] or {}).get('distinct', 0) for g in gens)
        + sum(g['gen']['distinct'] for g in gens),
        'transitions': sum((g['spec'] or {}).get('generated', 0) for g in gens)
        + sum(g['gen']['generated'] for g in gens),
        'behaviours': total_h, 'bad': bad, 'stats': stats, 'sample': sample,
        'generated_per_family': [len(g['hs']) for g in gens],
    }


def report(v: Any, agg: dict[str, Any], families: list[dict[str, Any]],
           cats: set[str] | None, extra_cov: dict[str, Any] | None = None,
           ) -> None:
    """Fill a Verdict from an aggregate; cats = mismatch categories that are
    this property's violations (None = all)."""
    for f, s in zip(families, agg['spec']):
        if s is not None and not s['ok']:
            v.violation(
                f'TLC: KfacRef property {s["violated"]} violated for '
                f'{f["cfg"]} alphabet {f["alphabet"]}\n{s["error"]}',
                {'kind': 'spec', 'prop': str(s['violated'])})
    other = 0
    for b in agg['bad']:
        ms = [m for m in b['mismatches'] if cats is None or m['cat'] in cats]
        if not ms:
            other += 1
            continue
        m = ms[0]
        cfgd = b['cfg']
        v.violation(
            f'{m["cat"]} mismatch after {m["act"]} (op {m["at"]}) of '
            f'{b["hist"]}: {m["msg"]} :: cfg {json.dumps(cfgd)[:300]}',
            {'cat': m['cat'], 'act': m['act'],
             'msg': m['msg'].split(':')[0][:60],
             'method': cfgd.get('method', 'eigen')},
            replay={'cfg': cfgd, 'h': b['h']})
    if other:
        v.note(f'{other} behaviours mismatched only in categories owned by '
               f'other properties')
    v.coverage = {
        'states': max(agg['states'], 1),
        'transitions': max(agg['transitions'], 1),
        'traces_validated_against_impl': agg['behaviours'],
        'samples': [agg['sample'] or 'none'],
        'evaluations': agg['behaviours'],
        'distinct_nontrivial': int(agg['stats'].get('steps', 0)),
        'rule': 'behaviours of spec/KfacRef.tla replayed in lock step into '
                'the real preconditioner; distinct_nontrivial counts '
                'preconditioning steps whose gradients were compared with '
                'the interpreted term (each in a distinct behaviour prefix)',
        'families': [{'cfg': {k: f['cfg'][k] for k in f['cfg']
                              if k not in ('W', 'k')},
                      'alphabet': f['alphabet'], 'depth': f['depth'],
                      'exhaustive': f['exhaustive']} for f in families][:40],
        'behaviours_per_family': agg['generated_per_family'][:60],
        'stats': {k: (round(x, 9) if isinstance(x, float) else x)
                  for k, x in agg['stats'].items()},
        'tolerances': {'factor_rel': refreplay.TOL_FACTOR,
                       'grad_rel_base': refreplay.TOL_GRAD,
                       'max_grad_err_is_fraction_of_tolerance': True},
    }
    if extra_cov:
        v.coverage.update(extra_cov)
