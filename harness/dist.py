"""spec/KfacDist.tla: build cases from real executions, run TLC on them."""

from __future__ import annotations

from typing import Any

from harness import kaisa
from harness.progs import instantiate
from harness.tlc import run_tlc, tla, TLCResult

CLAUSES = ['T_InvBcast', 'T_GradBcast', 'T_NoInvMemOpt', 'T_NoGradCommOpt',
           'T_FactorsWorld', 'T_NothingW1', 'T_OncePerUpdate', 'T_Match',
           'T_Members', 'T_InvSizes', 'HoldersOK']


def hist_facts(h: list[dict[str, Any]]) -> list[dict[str, Any]]:
    out = []
    prev = 0
    for rec in h:
        ups = len(rec['obs']['aFac']['ups'])
        x = rec['x']
        out.append({
            'act': rec['act'],
            'events': max(ups - prev, 0) if rec['act'] == 'train' else 0,
            'factorStep': bool(x.get('factorStep', False)),
            'refresh': bool(x.get('refresh', False)),
            'hasInv': bool(x.get('hasInv', False)),
        })
        prev = ups if rec['act'] != 'load' else ups
    return out


def build_case(cfg: kaisa.Config, h: list[dict[str, Any]],
               out: dict[str, Any]) -> dict[str, Any]:
    """Case record for KfacDist.tla from a distributed replay result."""
    W = cfg.W
    world = out['world']
    recs = out['allrecs']
    assign = [recs[r][0]['assign'] for r in range(W)]
    names = list(assign[0].keys())
    p = W // cfg.k
    layers = []
    for n in names:
        layers.append({
            'name': n, 'a': assign[0][n]['a'], 'g': assign[0][n]['g'],
            'invA': assign[0][n]['invA'], 'invG': assign[0][n]['invG'],
            'col': {r for r in range(W) if assign[r][n]['gw']},
        })
    row = [set(range((r // p) * p, (r // p + 1) * p)) for r in range(W)]
    fdt = cfg.factor_dtype or cfg.param_dtype
    fbytes = {'float32': 4, 'float64': 8, 'bfloat16': 2}[fdt]
    gdt = cfg.param_dtype
    trace: list[list[dict]] = [[] for _ in range(W)]
    cur = {r: 0 for r in range(W)}
    for e in world.events:
        r = e.get('rank')
        if r is None or e['ev'] != 'issue' or e['owner'] != 'kfac':
            continue
        if e['kind'] == 'all_reduce':
            dt = 'f'
        elif e['dtype'] == gdt and e['dtype'] != cfg.inv_dtype:
            dt = 'g'
        else:
            dt = 'i'
        trace[r].append({
            'kind': e['kind'], 'grp': set(world.groups[e['group']]),
            'root': -1 if e['root'] is None else e['root'],
            'numel': e['numel'], 'dt': dt, 'at': e.get('at', 0)})
    holders = []
    for i, rec in enumerate(h):
        if rec['act'] != 'step':
            continue
        holders.append([[bool(recs[r][i]['hold'][n]) for n in names]
                        for r in range(W)])
    return {
        'W': W, 'K': cfg.k, 'method': cfg.method, 'prediv': bool(cfg.prediv),
        'sym': bool(cfg.symmetry), 'bucketed': cfg.bucket_cap_mb > 0,
        'cap': int(cfg.bucket_cap_mb * 1000 * 1000), 'fbytes': fbytes,
        'inhook': bool(cfg.in_hook), 'layers': layers, 'row': row,
        'hist': hist_facts(h), 'trace': trace, 'holders': holders,
    }


def check_cases(cases: list[dict[str, Any]], workers: int = 2,
                invariants: list[str] | None = None) -> TLCResult:
    name = 'MC_KfacDist'
    defs = 'Cases == ' + tla(cases) + '\n'
    mod = instantiate('KfacDist', name, defs)
    invs = invariants or (['DesignOK'] + CLAUSES)
    cfg = 'SPECIFICATION Spec\n' + ''.join(
        f'INVARIANT {i}\n' for i in invs) + 'CHECK_DEADLOCK FALSE\n'
    return run_tlc(name, cfg_text=cfg, extra_modules={name: mod},
                   workers=workers, deadlock=False, timeout=1800)


def design_cases(max_w: int, limit: int | None = None, seed: int = 0,
                 ) -> list[dict[str, Any]]:
    """Design-level cases for KfacDist.tla (no recorded trace): every world
    size / gradient-worker count, layer lists with the assignment the real
    KAISAAssignment computes, method / prediv / symmetry / bucketing / hook
    flags, one canonical history that visits every kind of call."""
    import itertools
    import random
    from kfac.assignment import KAISAAssignment

    sizes = [(3, 2), (5, 4), (2, 2), (4, 7)]
    out = []
    for W in range(1, max_w + 1):
        for k in [d for d in range(1, W + 1) if W % d == 0]:
            for nl in (1, 2, 3, 4):
                for colocate in (True, False):
                    work = {f'l{i}': {'A': float(sizes[i][0] ** 3),
                                      'G': float(sizes[i][1] ** 3)}
                            for i in range(nl)}
                    views = [KAISAAssignment(
                        {n: dict(f) for n, f in work.items()}, local_rank=r,
                        world_size=W, grad_worker_fraction=k / W,
                        group_func=lambda ranks: tuple(sorted(ranks)),
                        colocate_factors=colocate) for r in range(W)]
                    p = W // k
                    layers = []
                    for i, n in enumerate(work):
                        layers.append({
                            'name': n, 'a': sizes[i][0], 'g': sizes[i][1],
                            'invA': views[0].inv_worker(n, 'A'),
                            'invG': views[0].inv_worker(n, 'G'),
                            'col': {r for r in range(W)
                                    if views[r].is_grad_worker(n)}})
                    row = [set(range((r // p) * p, (r // p + 1) * p))
                           for r in range(W)]
                    for method, prediv in (('eigen', True), ('eigen', False),
                                           ('inverse', False)):
                        if prediv and not colocate:
                            continue
                        for sym, cap, inhook in itertools.product(
                                (False, True), (0, 100, 10 ** 7), (True, False)):
                            hist = [
                                {'act': 'train', 'events': 1 if inhook else 0,
                                 'factorStep': False, 'refresh': False,
                                 'hasInv': False},
                                {'act': 'step', 'events': 0,
                                 'factorStep': True, 'refresh': True,
                                 'hasInv': False},
                                {'act': 'train', 'events': 2 if inhook else 0,
                                 'factorStep': False, 'refresh': False,
                                 'hasInv': False},
                                {'act': 'mem', 'events': 0,
                                 'factorStep': False, 'refresh': False,
                                 'hasInv': False},
                                {'act': 'step', 'events': 0,
                                 'factorStep': True, 'refresh': False,
                                 'hasInv': False},
                                {'act': 'load', 'events': 0,
                                 'factorStep': False, 'refresh': False,
                                 'hasInv': True},
                                {'act': 'step', 'events': 0,
                                 'factorStep': False, 'refresh': True,
                                 'hasInv': False},
                            ]
                            out.append({
                                'W': W, 'K': k, 'method': method,
                                'prediv': prediv, 'sym': sym,
                                'bucketed': cap > 0, 'cap': cap, 'fbytes': 4,
                                'inhook': inhook, 'layers': layers,
                                'row': row, 'hist': hist,
                                'trace': [[] for _ in range(W)],
                                'holders': []})
    if limit is not None and len(out) > limit:
        out = random.Random(seed).sample(out, limit)
    return out


def check_design(cases: list[dict[str, Any]], batch: int = 40,
                 ) -> tuple[list[int], int, int]:
    from concurrent.futures import ThreadPoolExecutor

    def run(lo: int) -> tuple[list[int], int, int]:
        b = cases[lo:lo + batch]
        r = check_cases(b, invariants=['DesignOK'], workers=1)
        bad: list[int] = []
        if not r.ok:
            start = 0
            while start < len(b):
                r1 = check_cases(b[start:], invariants=['DesignOK'], workers=1)
                if r1.ok:
                    break
                k = max(1, len(r1.trace))
                bad.append(lo + start + k - 1)
                start += k
        return bad, r.distinct, r.generated

    with ThreadPoolExecutor(max_workers=8) as ex:
        res = list(ex.map(run, range(0, len(cases), batch)))
    return ([x for r in res for x in r[0]], sum(r[1] for r in res),
            sum(r[2] for r in res))
