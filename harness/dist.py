"""spec/KfacDist.tla: build cases from real executions, run TLC on them."""

from __future__ import annotations

from typing import Any

from harness import kaisa
from harness.progs import instantiate
from harness.tlc import run_tlc, tla, TLCResult

CLAUSES = ['T_InvBcast', 'T_GradBcast', 'T_NoInvMemOpt', 'T_NoGradCommOpt',
           'T_FactorsWorld', 'T_NothingW1', 'T_OncePerUpdate', 'T_Match',
           'T_Members', 'T_InvSizes', 'HoldersOK']


def hist_facts(h: list[dict[str, Any]]) -> list[dict[str, Any]]:
    out = []
    prev = 0
    for rec in h:
        ups = len(rec['obs']['aFac']['ups'])
        x = rec['x']
        out.append({
            'act': rec['act'],
            'events': max(ups - prev, 0) if rec['act'] == 'train' else 0,
            'factorStep': bool(x.get('factorStep', False)),
            'refresh': bool(x.get('refresh', False)),
            'hasInv': bool(x.get('hasInv', False)),
        })
        prev = ups if rec['act'] != 'load' else ups
    return out


def build_case(cfg: kaisa.Config, h: list[dict[str, Any]],
               out: dict[str, Any]) -> dict[str, Any]:
    """Case record for KfacDist.tla from a distributed replay result."""
    W = cfg.W
    world = out['world']
    recs = out['allrecs']
    assign = [recs[r][0]['assign'] for r in range(W)]
    names = list(assign[0].keys())
    p = W // cfg.k
    layers = []
    for n in names:
        layers.append({
            'name': n, 'a': assign[0][n]['a'], 'g': assign[0][n]['g'],
            'invA': assign[0][n]['invA'], 'invG': assign[0][n]['invG'],
            'col': {r for r in range(W) if assign[r][n]['gw']},
        })
    row = [set(range((r // p) * p, (r // p + 1) * p)) for r in range(W)]
    fdt = cfg.factor_dtype or cfg.param_dtype
    fbytes = {'float32': 4, 'float64': 8, 'bfloat16': 2}[fdt]
    gdt = cfg.param_dtype
    trace: list[list[dict]] = [[] for _ in range(W)]
    cur = {r: 0 for r in range(W)}
    for e in world.events:
        r = e.get('rank')
        if r is None or e['ev'] != 'issue' or e['owner'] != 'kfac':
            continue
        if e['kind'] == 'all_reduce':
            dt = 'f'
        elif e['dtype'] == gdt and e['dtype'] != cfg.inv_dtype:
            dt = 'g'
        else:
            dt = 'i'
        trace[r].append({
            'kind': e['kind'], 'grp': set(world.groups[e['group']]),
            'root': -1 if e['root'] is None else e['root'],
            'numel': e['numel'], 'dt': dt, 'at': e.get('at', 0)})
    holders = []
    for i, rec in enumerate(h):
        if rec['act'] != 'step':
            continue
        holders.append([[bool(recs[r][i]['hold'][n]) for n in names]
                        for r in range(W)])
    return {
        'W': W, 'K': cfg.k, 'method': cfg.method, 'prediv': bool(cfg.prediv),
        'sym': bool(cfg.symmetry), 'bucketed': cfg.bucket_cap_mb > 0,
        'cap': int(cfg.bucket_cap_mb * 1000 * 1000), 'fbytes': fbytes,
        'inhook': bool(cfg.in_hook), 'layers': layers, 'row': row,
        'hist': hist_facts(h), 'trace': trace, 'holders': holders,
    }


def check_cases(cases: list[dict[str, Any]], workers: int = 2,
                invariants: list[str] | None = None) -> TLCResult:
    name = 'MC_KfacDist'
    defs = 'Cases == ' + tla(cases) + '\n'
    mod = instantiate('KfacDist', name, defs)
    invs = invariants or (['DesignOK'] + CLAUSES)
    cfg = 'SPECIFICATION Spec\n' + ''.join(
        f'INVARIANT {i}\n' for i in invs) + 'CHECK_DEADLOCK FALSE\n'
    return run_tlc(name, cfg_text=cfg, extra_modules={name: mod},
                   workers=workers, deadlock=False, timeout=1800)
