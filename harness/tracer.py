"""Direction B for spec/KfacRef.tla: record what ANY driver does with a
KFACPreconditioner (the repository's own training loops, random API drivers)
and let TLC decide whether the recorded call sequence, with the abstract state
observed after every call, is a behaviour of the specification
(spec/KfacTrace.tla).

Nothing in /repo is changed: the public methods and the two hook methods of
BaseKFACPreconditioner are wrapped from outside while a `Tracer` is installed.
One event per public call (logged when the call returns, also on the error
path); forward / backward hook invocations are grouped into one event per
pass when the next call arrives.  Observations are cheap and discrete:

  steps                     preconditioner.steps
  chA / chG                 did any / every layer's A (G) factor change
  accA / accG               is a batch statistic pending in the layers
  hasInv                    does every layer hold second-order data
  ndec                      eigendecompositions / inversions during the call
  raised                    the call raised
"""

from __future__ import annotations

import hashlib
from typing import Any

import torch

from harness import kaisa
from harness.refreplay import LinalgLog, peek


def _dig(t: Any) -> str:
    if not isinstance(t, torch.Tensor):
        return str(t)
    return hashlib.sha1(
        t.detach().to(torch.float64).contiguous().numpy().tobytes()
    ).hexdigest()[:16]


class Tracer:
    def __init__(self) -> None:
        self.traces: dict[int, dict[str, Any]] = {}
        self.order: list[int] = []
        self._orig: dict[str, Any] = {}
        self._depth = 0
        self.saves: dict[str, tuple[int, int]] = {}   # content key -> (trace, pos)
        self.unavailable: list[str] = []

    # ---- observation ------------------------------------------------------
    def _layers(self, pre: Any) -> list[Any]:
        return [layer for _, layer in pre._layers.values()]

    def _snapshot(self, pre: Any) -> dict[str, Any]:
        ls = self._layers(pre)
        return {
            'A': [_dig(peek(l, 'a_factor')) for l in ls],
            'G': [_dig(peek(l, 'g_factor')) for l in ls],
            'accA': [vars(l).get('_a_batch') is not None for l in ls],
            'accG': [vars(l).get('_g_batch') is not None for l in ls],
            # the batch buffers are private: if a refactor renames them the
            # observation is dropped instead of raising a false alarm
            'accKnown': all('_a_batch' in vars(l) and '_g_batch' in vars(l)
                            for l in ls),
            'inv': [bool(kaisa.second_order_held(l)) for l in ls],
        }

    def _obs(self, tr: dict[str, Any], pre: Any) -> dict[str, Any]:
        new = self._snapshot(pre)
        old = tr['snap']
        tr['snap'] = new
        chA = [a != b for a, b in zip(old['A'], new['A'])]
        chG = [a != b for a, b in zip(old['G'], new['G'])]

        def uni(xs: list[bool]) -> bool:
            return all(xs) or not any(xs)

        def cur(v: Any) -> int:
            return int(v(pre.steps)) if callable(v) else int(v)

        return {
            'steps': int(pre.steps),
            'F': cur(pre._factor_update_steps),
            'I': cur(pre._inv_update_steps),
            'chA': any(chA), 'chG': any(chG),
            'accA': any(new['accA']), 'accG': any(new['accG']),
            'accKnown': bool(new['accKnown']),
            'hasInv': all(new['inv']) and bool(new['inv']),
            'uniform': (uni(chA) and uni(chG) and uni(new['accA'])
                        and uni(new['accG']) and uni(new['inv'])),
        }

    # ---- events -----------------------------------------------------------
    def _trace(self, pre: Any) -> dict[str, Any]:
        return self.traces[id(pre)]

    def _flush_passes(self, pre: Any) -> None:
        tr = self._trace(pre)
        if tr['cur'] is None:
            return
        cur = tr['cur']
        tr['cur'] = None
        kind = 'eval' if not cur['training'] else (
            'train' if cur['bwd'] else 'fwdonly')
        ev = {'act': kind, 'arg': 0, 'raised': False, 'ndec': 0}
        ev.update(self._obs(tr, pre))
        tr['events'].append(ev)

    def _hook(self, pre: Any, which: str, module: Any) -> None:
        tr = self.traces.get(id(pre))
        if tr is None:
            return
        name = pre._layers[module][0] if module in pre._layers else None
        cur = tr['cur']
        new_pass = cur is None or (
            which == 'fwd' and (cur['bwd'] or name in cur['fwd_seen']))
        if new_pass:
            self._flush_passes(pre)
            tr['cur'] = cur = {'training': bool(module.training),
                               'fwd_seen': set(), 'bwd': False}
        if which == 'fwd':
            cur['fwd_seen'].add(name)
        else:
            cur['bwd'] = True

    def _call(self, pre: Any, act: str, arg: Any, fn: Any, *a: Any,
              **kw: Any) -> Any:
        tr = self.traces.get(id(pre))
        if tr is None or self._depth > 0:
            return fn(pre, *a, **kw)
        self._flush_passes(pre)
        self._depth += 1
        ll = LinalgLog()
        raised = False
        try:
            with ll:
                return fn(pre, *a, **kw)
        except BaseException:
            raised = True
            raise
        finally:
            self._depth -= 1
            ev = {'act': act, 'arg': arg, 'raised': raised,
                  'ndec': len(ll.calls)}
            ev.update(self._obs(tr, pre))
            tr['events'].append(ev)

    # ---- installation -----------------------------------------------------
    def install(self) -> 'Tracer':
        from kfac.base_preconditioner import BaseKFACPreconditioner as B

        tracer = self
        names = ['__init__', 'step', 'state_dict', 'load_state_dict',
                 'reset_batch', 'memory_usage', '_save_input',
                 '_save_grad_output']
        # the two hook callbacks are private: if a refactoring renamed them
        # the recorder cannot see passes -- it then records nothing and the
        # caller skips direction B instead of raising a false alarm
        self.unavailable = [n for n in names if not hasattr(B, n)]
        if self.unavailable:
            self._orig = {}
            return self
        self._orig = {n: getattr(B, n) for n in names}
        o = self._orig

        def init(pre: Any, *a: Any, **kw: Any) -> None:
            o['__init__'](pre, *a, **kw)
            tracer.traces[id(pre)] = {
                'pre': pre, 'events': [], 'cur': None,
                'snap': tracer._snapshot(pre), 'link': None,
                'cfg': tracer._config(pre)}
            tracer.order.append(id(pre))

        def step(pre: Any) -> None:
            return tracer._call(pre, 'step', 0, o['step'])

        def state_dict(pre: Any, include_factors: bool = True) -> Any:
            sd = tracer._call(pre, 'save', bool(include_factors),
                              o['state_dict'], include_factors)
            tr = tracer.traces.get(id(pre))
            if tr is not None and tracer._depth == 0:
                tracer.saves[tracer._key(sd)] = (id(pre), len(tr['events']))
            return sd

        def load_state_dict(pre: Any, state_dict: Any,
                            compute_inverses: bool = True) -> None:
            tr = tracer.traces.get(id(pre))
            if tr is not None and tracer._depth == 0:
                tr['link'] = tracer.saves.get(tracer._key(state_dict))
                tr['fresh_at_load'] = not tr['events'] and tr['cur'] is None
            return tracer._call(pre, 'load', bool(compute_inverses),
                                o['load_state_dict'], state_dict,
                                compute_inverses)

        def reset_batch(pre: Any) -> None:
            return tracer._call(pre, 'reset', 0, o['reset_batch'])

        def memory_usage(pre: Any) -> Any:
            return tracer._call(pre, 'mem', 0, o['memory_usage'])

        def save_input(pre: Any, module: Any, input_: Any) -> None:
            tracer._hook(pre, 'fwd', module)
            return o['_save_input'](pre, module, input_)

        def save_grad_output(pre: Any, module: Any, grad_input: Any,
                             grad_output: Any) -> None:
            tracer._hook(pre, 'bwd', module)
            return o['_save_grad_output'](pre, module, grad_input,
                                          grad_output)

        # the hyper-parameter scheduler: factor functions are identified by
        # identity with the harness table (their values are rationals in the
        # specification); anything else makes the trace unsupported
        from kfac.scheduler import LambdaParamScheduler as S
        self._orig_s = {'__init__': S.__init__, 'step': S.step}
        os_ = self._orig_s
        rev = {id(f): n for n, f in kaisa.FUNCS.items()}
        pnames = {'factor_update_steps_lambda': 'factor_update_steps',
                  'inv_update_steps_lambda': 'inv_update_steps',
                  'damping_lambda': 'damping',
                  'factor_decay_lambda': 'factor_decay',
                  'kl_clip_lambda': 'kl_clip', 'lr_lambda': 'lr'}

        def s_init(sch: Any, preconditioner: Any, **kw: Any) -> None:
            os_['__init__'](sch, preconditioner, **kw)
            tr = tracer.traces.get(id(preconditioner))
            if tr is None:
                return
            sched = {}
            for k, f in kw.items():
                if f is None:
                    continue
                if id(f) not in rev or tr['events'] or tr['cur'] is not None:
                    tr['unsupported'] = ('scheduler with an unknown factor '
                                         'function or attached late')
                else:
                    sched[pnames[k]] = rev[id(f)]
            tr['cfg']['sched'] = sched

        def s_step(sch: Any, step: Any = None) -> None:
            pre = sch._preconditioner
            return tracer._call(pre, 'sched', -1 if step is None else int(step),
                                lambda _p: os_['step'](sch, step))

        S.__init__ = s_init
        S.step = s_step
        B.__init__ = init
        B.step = step
        B.state_dict = state_dict
        B.load_state_dict = load_state_dict
        B.reset_batch = reset_batch
        B.memory_usage = memory_usage
        B._save_input = save_input
        B._save_grad_output = save_grad_output
        return self

    def uninstall(self) -> None:
        from kfac.base_preconditioner import BaseKFACPreconditioner as B

        for n, f in self._orig.items():
            setattr(B, n, f)
        self._orig = {}
        from kfac.scheduler import LambdaParamScheduler as S
        for n, f in getattr(self, '_orig_s', {}).items():
            setattr(S, n, f)
        self._orig_s = {}

    def __enter__(self) -> 'Tracer':
        return self.install()

    def __exit__(self, *a: Any) -> None:
        self.finish()
        self.uninstall()

    def finish(self) -> None:
        for tr in self.traces.values():
            if tr['cur'] is not None:
                self._flush_passes(tr['pre'])

    # ---- configuration of an instance as KfacRef constants -----------------
    @staticmethod
    def _key(sd: Any) -> str:
        h = hashlib.sha1()
        h.update(repr(sorted((k, v) for k, v in sd.items()
                             if k != 'layers')).encode())
        for n, d in sorted((sd.get('layers') or {}).items()):
            h.update(n.encode())
            for k in ('A', 'G'):
                h.update(_dig(d.get(k)).encode())
        h.update(b'layers' if 'layers' in sd else b'nolayers')
        return h.hexdigest()

    @staticmethod
    def _config(pre: Any) -> dict[str, Any]:
        def ispec(v: Any) -> Any:
            if callable(v):
                # tabulate the interval function (only its values matter)
                return {'table': [int(v(s)) for s in range(0, 64)]}
            return int(v)

        def fkind(v: Any) -> str:
            if v is None:
                return 'none'
            return 'fn' if callable(v) else 'const'

        return {
            'F': ispec(pre._factor_update_steps),
            'I': ispec(pre._inv_update_steps),
            'in_hook': bool(pre._update_factors_in_hook),
            'accum': int(pre._accumulation_steps),
            'kinds': {'damping': fkind(pre._damping),
                      'factor_decay': fkind(pre._factor_decay),
                      'kl_clip': fkind(pre._kl_clip), 'lr': fkind(pre._lr)},
            'nlayers': len(pre._layers),
            'sched': {},
        }

    # ---- export -----------------------------------------------------------
    def export(self) -> list[dict[str, Any]]:
        """One record per instance: configuration + events; an instance that
        loaded a state saved by another traced instance gets that instance's
        events up to the save as its prefix (a resume)."""
        self.finish()
        if self.unavailable:
            return [{'cfg': {}, 'events': [], 'prefix': 0, 'supported': False,
                     'why': 'recorder unavailable: BaseKFACPreconditioner has '
                            f'no {self.unavailable}'}]
        out = []
        full: dict[int, list[dict[str, Any]]] = {}
        for pid in self.order:
            tr = self.traces[pid]
            events = list(tr['events'])
            prefix: list[dict[str, Any]] = []
            supported = tr['cfg']['nlayers'] > 0
            why = '' if supported else 'no registered layer'
            if tr.get('unsupported'):
                supported, why = False, tr['unsupported']
            loads = [i for i, e in enumerate(events) if e['act'] == 'load']
            if loads:
                if loads != [0] or not tr.get('fresh_at_load') \
                        or tr['link'] is None:
                    supported = False
                    why = ('load_state_dict into a used preconditioner or of '
                           'an untraced state (outside KfacRef.Load)')
                else:
                    src, pos = tr['link']
                    if self.traces[src]['cfg'] != tr['cfg']:
                        supported = False
                        why = 'resume with a different configuration'
                    # the source may itself be a resumed instance
                    sfull = full.get(src, self.traces[src]['events'])
                    own = len(self.traces[src]['events'])
                    prefix = list(sfull[:len(sfull) - own + pos])
            full[pid] = prefix + events
            out.append({'cfg': tr['cfg'], 'events': prefix + events,
                        'prefix': len(prefix), 'supported': supported,
                        'why': why})
        return out
