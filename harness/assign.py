"""Run spec/KfacAssign.tla and parse the emitted argument tuples."""

from __future__ import annotations

import json
from typing import Any

from harness.progs import instantiate
from harness.tlc import run_tlc, tla, TLCResult


def real_orders(pairs: list[tuple[int, int]]) -> dict[tuple[int, int], list]:
    """Order in which the interpreter hands the column groups to the greedy."""
    from kfac.assignment import KAISAAssignment

    out = {}
    for W, k in pairs:
        gs = KAISAAssignment.partition_grad_workers(W, k)
        out[(W, k)] = [list(r) for r in gs]
    return out


def run_assign(mode: str, maxw: int, maxl: int, costs: list[int],
               orders: dict[tuple[int, int], list], nf: list[int] = (1, 2, 3),
               workers: int = 8,
               timeout: int = 1800, emit: bool = True,
               stream_to: str | None = None,
               ) -> tuple[TLCResult, Any]:
    """stream_to: path of a file that receives TLC's output; the second
    result is then a lazy iterator over the emitted tuples (memory-safe for
    scopes with millions of states)."""
    ko = '(' + ' @@ '.join(
        f'<<{W}, {k}>> :> {{{tla(o)}}}' for (W, k), o in sorted(orders.items())
    ) + ')' if orders else '<<>>'
    defs = (
        f'Mode == {tla(mode)}\nMaxW == {maxw}\nMaxL == {maxl}\n'
        f'Costs == {tla(set(costs))}\nNF == {tla(set(nf))}\n'
        f'KaisaOrders == {ko}\n'
    )
    name = 'MC_KfacAssign'
    mod = instantiate('KfacAssign', name, defs)
    cfg = 'SPECIFICATION Spec\nINVARIANT InvGreedy\nINVARIANT InvKaisa\n'
    if emit:
        cfg += 'INVARIANT Emit\n'
    cfg += 'CHECK_DEADLOCK FALSE\n'
    r = run_tlc(name, cfg_text=cfg, extra_modules={name: mod},
                workers=workers, timeout=timeout, deadlock=False,
                emit_path=stream_to)
    if stream_to is not None:
        def it() -> Any:
            with open(stream_to) as fi:
                for line in fi:
                    if line.startswith('"{'):
                        try:
                            yield json.loads(json.loads(line))
                        except Exception:  # noqa: BLE001
                            continue
        return r, it()
    tuples = []
    for line in r.stdout.splitlines():
        if line.startswith('"{'):
            try:
                tuples.append(json.loads(json.loads(line)))
            except Exception:  # noqa: BLE001
                continue
    return r, tuples


def work_dict(work: list[dict[str, Any]]) -> dict[str, dict[str, float]]:
    return {l['name']: {x['f']: x['c'] for x in l['fs']} for l in work}


def cross_interpreter(tuples: list[dict[str, Any]], seeds: tuple = (0, 1, 2, 7, 12345),
                      ) -> str | None:
    """Evaluate the assignments of `tuples` in fresh interpreters with
    different PYTHONHASHSEED values (ranks are separate processes in a real
    job); all results must be identical."""
    import os
    import subprocess
    import tempfile
    from harness.common import REPO, VERIF

    ts = [tp['t'] for tp in tuples]
    with tempfile.NamedTemporaryFile('w', suffix='.json', delete=False) as f:
        json.dump(ts, f)
        path = f.name
    try:
        outs = {}
        for s in seeds:
            env = dict(os.environ, PYTHONHASHSEED=str(s))
            p = subprocess.run(
                ['/venv/bin/python', os.path.join(VERIF, 'harness',
                                                  'hashseed_probe.py'),
                 path, REPO], capture_output=True, text=True, env=env,
                timeout=600)
            if p.returncode != 0:
                return f'probe failed under PYTHONHASHSEED={s}: {p.stderr[-300:]}'
            outs[s] = p.stdout.strip()
        base = outs[seeds[0]]
        for s in seeds[1:]:
            if outs[s] != base:
                a, b = json.loads(base), json.loads(outs[s])
                for i, (x, y) in enumerate(zip(a, b)):
                    if x != y:
                        return (f'assignment depends on the interpreter hash '
                                f'seed: PYTHONHASHSEED={seeds[0]} gives '
                                f'{json.dumps(x)[:200]} but {s} gives '
                                f'{json.dumps(y)[:200]} for {json.dumps(ts[i])[:300]}')
                return 'assignment depends on the interpreter hash seed'
    finally:
        os.unlink(path)
    return None


class SearchBudget(Exception):
    pass


def valid_greedy(work: dict[str, dict[str, float]], groups: list[list[int]],
                 W: int, colocate: bool,
                 placement: dict[str, dict[str, int]],
                 any_layer_order: bool = False) -> bool:
    """Is `placement` SOME outcome of the greedy rule of C17 -- layers in order
    of decreasing total cost on a currently least-loaded group, factors in
    decreasing cost on a currently least-loaded worker of it -- for some way
    of breaking ties?  (The property does not fix tie-breaking; the
    specification fixes it the way the pinned code does.  Used only when the
    code's placement differs from the specification's.)"""
    from itertools import permutations

    if set(placement) != set(work):
        return False
    totals = {l: sum(fs.values()) for l, fs in work.items()}
    gidx = {}
    for l, fs in placement.items():
        if set(fs) != set(work[l]):
            return False
        cand = [i for i, g in enumerate(groups)
                if all(w in g for w in fs.values())]
        if not cand and fs:
            return False
        gidx[l] = cand
    seen: set = set()

    def place_factors(l: str, g: list[int], loads: tuple) -> list[tuple]:
        """All load vectors reachable by placing l's factors as in placement."""
        fs = work[l]
        if colocate:
            ws = set(placement[l].values())
            if len(ws) > 1:
                return []
            if not ws:
                return [loads]
            w = next(iter(ws))
            if loads[w] != min(loads[x] for x in g):
                return []
            nl = list(loads)
            nl[w] += totals[l]
            return [tuple(nl)]
        outs = []
        items = sorted(fs.items(), key=lambda x: -x[1])
        # permutations among equal costs
        def rec(rest: list, cur: tuple) -> None:
            if not rest:
                outs.append(cur)
                return
            top = rest[0][1]
            for j, (f, c) in enumerate(rest):
                if c != top:
                    break
                w = placement[l][f]
                if cur[w] != min(cur[x] for x in g):
                    continue
                nl = list(cur)
                nl[w] += c
                rec(rest[:j] + rest[j + 1:], tuple(nl))
        rec(items, loads)
        return outs

    def search(remaining: frozenset, loads: tuple) -> bool:
        if not remaining:
            return True
        key = (remaining, loads)
        if key in seen:
            return False
        if len(seen) > 200000:
            # instance with too many ties to decide within the budget: the
            # validator abstains (never a reason for an alarm)
            raise SearchBudget()
        seen.add(key)
        top = max(totals[l] for l in remaining)
        cands = [l for l in remaining
                 if any_layer_order or totals[l] == top]
        for l in cands:
            gl = [sum(loads[w] for w in g) for g in groups]
            for gi in gidx[l]:
                if gl[gi] != min(gl):
                    continue
                for nl in place_factors(l, groups[gi], loads):
                    if search(remaining - {l}, nl):
                        return True
        return False

    try:
        return search(frozenset(work), tuple([0.0] * W))
    except SearchBudget:
        return True
