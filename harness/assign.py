"""Run spec/KfacAssign.tla and parse the emitted argument tuples."""

from __future__ import annotations

import json
from typing import Any

from harness.progs import instantiate
from harness.tlc import run_tlc, tla, TLCResult


def real_orders(pairs: list[tuple[int, int]]) -> dict[tuple[int, int], list]:
    """Order in which the interpreter hands the column groups to the greedy."""
    from kfac.assignment import KAISAAssignment

    out = {}
    for W, k in pairs:
        gs = KAISAAssignment.partition_grad_workers(W, k)
        out[(W, k)] = [list(r) for r in gs]
    return out


def run_assign(mode: str, maxw: int, maxl: int, costs: list[int],
               orders: dict[tuple[int, int], list], nf: list[int] = (1, 2, 3),
               workers: int = 8,
               timeout: int = 1800, emit: bool = True,
               ) -> tuple[TLCResult, list[dict[str, Any]]]:
    ko = '(' + ' @@ '.join(
        f'<<{W}, {k}>> :> {{{tla(o)}}}' for (W, k), o in sorted(orders.items())
    ) + ')' if orders else '<<>>'
    defs = (
        f'Mode == {tla(mode)}\nMaxW == {maxw}\nMaxL == {maxl}\n'
        f'Costs == {tla(set(costs))}\nNF == {tla(set(nf))}\n'
        f'KaisaOrders == {ko}\n'
    )
    name = 'MC_KfacAssign'
    mod = instantiate('KfacAssign', name, defs)
    cfg = 'SPECIFICATION Spec\nINVARIANT InvGreedy\nINVARIANT InvKaisa\n'
    if emit:
        cfg += 'INVARIANT Emit\n'
    cfg += 'CHECK_DEADLOCK FALSE\n'
    r = run_tlc(name, cfg_text=cfg, extra_modules={name: mod},
                workers=workers, timeout=timeout, deadlock=False)
    tuples = []
    for line in r.stdout.splitlines():
        if line.startswith('"{'):
            try:
                tuples.append(json.loads(json.loads(line)))
            except Exception:  # noqa: BLE001
                continue
    return r, tuples


def work_dict(work: list[dict[str, Any]]) -> dict[str, dict[str, float]]:
    return {l['name']: {x['f']: x['c'] for x in l['fs']} for l in work}
