"""Driver: run the real KFACPreconditioner on simdist under a history.

A *history* is a list of operations every rank performs in order (the public
calls of the library are the linearisation points of a sequential library):

  ['train', n_micro]        n_micro forward/backward passes in train mode
                            (gradients accumulated), then DDP-like averaging
  ['fwdonly']               a forward pass in train mode without backward
  ['eval']                  forward + backward in eval mode
  ['step']                  preconditioner.step() (+ snapshot + SGD update)
  ['reset']                 preconditioner.reset_batch()
  ['sched', arg|None]       LambdaParamScheduler.step(arg)
  ['save', include_factors] state_dict() -> ckpt (through torch.save/load)
  ['load', compute_inv]     fresh model copy + fresh preconditioner,
                            load_state_dict(ckpt)
  ['mem']                   memory_usage()
  ['save_on', [ranks], inc] state_dict() only on a subset of ranks
  ['mem_on', [ranks]]       memory_usage() only on a subset of ranks
  ['reset_on', [ranks]]     reset_batch() only on a subset of ranks
"""

from __future__ import annotations

import copy
import io
import math
from dataclasses import dataclass, field, asdict
from typing import Any, Callable

import torch

from harness import simdist


@dataclass
class Config:
    W: int = 1
    k: int = 1                     # gradient worker count (divides W)
    frac_spelling: str = 'float'   # 'float' | 'enum'
    colocate: bool = True
    heuristic: str = 'compute'
    bucket_cap_mb: float = 25.0
    symmetry: bool = False
    method: str = 'eigen'
    prediv: bool = True
    in_hook: bool = True
    accum: int = 1
    F: Any = 1                     # factor_update_steps (int | name of fn)
    I: Any = 1                     # inv_update_steps
    damping: Any = 0.05
    decay: Any = 0.9
    kl_clip: Any = 0.001
    lr: Any = 0.1
    model: str = 'mlp3'
    param_dtype: str = 'float32'
    factor_dtype: str | None = None
    inv_dtype: str = 'float32'
    batch: int = 4
    skip_layers: list[str] = field(default_factory=list)
    sched: dict[str, str] = field(default_factory=dict)  # param -> fn name
    steps0: int = 0              # the history starts from a step counter
    # restored with load_state_dict({'steps': steps0}) into the fresh instance
    overflow: Any = None         # [iteration, rank]: that rank's scaled loss
    # overflows in that iteration (non-finite gradients, as under AMP)
    keep_grads: bool = False     # optimizer.zero_grad(set_to_none=False): the
    # gradient tensors survive from one iteration to the next
    grad_scaler: Any = None      # float: constant loss scale; 'dyn<base>':
    # the scale changes from micro-batch to micro-batch (base * 2**k)
    sgd_lr: float = 0.05
    ddp: bool = True               # driver averages gradients over ranks (a
                                   # synchronising collective per iteration);
                                   # False lets ranks drift apart (C03)
    in_scale: float = 1.0          # magnitude of the inputs (ill-conditioned
                                   # factors: what is communicated must not
                                   # depend on the DATA)
    union: int = 1                 # W=1 run on the union of `union` rank batches
    inmem_ckpt: bool = False       # keep the state_dict as a live in-memory
                                   # object (not serialised / copied) and load
                                   # that very object later
    fresh_perturb: bool = False    # a resume constructs the fresh preconditioner
                                   # with OTHER constant hyper-parameters (the load must restore the saved ones)
    gpt: dict | None = None        # GPT-NeoX runs: {'D','M','bias_col','bias_row',...}

    def to_json(self) -> dict[str, Any]:
        return asdict(self)


# named callables (injective in the step where it matters)
FUNCS: dict[str, Callable[[int], Any]] = {
    'damp_lin': lambda s: 0.05 * (s + 2),
    'decay_lin': lambda s: 0.5 + 0.05 * min(s, 8),
    'kl_lin': lambda s: 0.001 * (s + 1),
    'kl_tiny': lambda s: 1e-7 * (s + 1),
    # not clipped on even steps, clipped hard on odd ones
    'kl_alt': lambda s: 1e9 if s % 2 == 0 else 1e-7,
    'lr_lin': lambda s: 0.1 * (s + 1),
    'int_1_2': lambda s: 1 if s < 2 else 2,
    'int_2_1': lambda s: 2 if s < 2 else 1,
    'int_1_3': lambda s: 1 if s < 1 else 3,
    # scheduler factors (dyadic)
    'half': lambda s: 0.5,
    'dbl': lambda s: 2.0,
    'dbl_after1': lambda s: 2.0 if s >= 1 else 1.0,
    'step_pow': lambda s: 1.0 if s % 2 == 0 else 0.5,
}


FUNCS['expdecay'] = lambda s: min(1 - 1 / max(s, 1), 0.95)   # reference formula


def hp(v: Any) -> Any:
    if v == 'expdecay':
        # the real schedule from the package; terms.py interprets it with the
        # reference formula above
        from kfac.hyperparams import exp_decay_factor_averaging

        return exp_decay_factor_averaging(0.95)
    if isinstance(v, str):
        return FUNCS[v]
    return v


DT = {
    'float32': torch.float32, 'float64': torch.float64,
    'bfloat16': torch.bfloat16, 'float16': torch.float16, None: None,
}


class Act(torch.nn.Module):
    def forward(self, x):
        return torch.tanh(x)


def make_model(name: str, seed: int, dtype: torch.dtype) -> torch.nn.Module:
    g = torch.Generator().manual_seed(1000 + seed)
    if name == 'mlp3':
        # factor sizes all distinct: A 5,7,4  G 6,3,2
        m = torch.nn.Sequential(
            torch.nn.Linear(4, 6), Act(),
            torch.nn.Linear(6, 3), Act(),
            torch.nn.Linear(3, 2),
        )
    elif name == 'mlp2':
        # A 4,6 ; G 5,3
        m = torch.nn.Sequential(
            torch.nn.Linear(3, 5), Act(),
            torch.nn.Linear(5, 3, bias=True),
        )
    elif name == 'mlp2nb':
        # second layer without bias: A 4,5 ; G 5->clash avoided: sizes 4,6 / 6?,..
        m = torch.nn.Sequential(
            torch.nn.Linear(3, 6), Act(),
            torch.nn.Linear(6, 2, bias=False),
        )
    elif name == 'conv':
        # conv: in 2, out 3, k 2x2 -> A 9, G 3 ; linear 3*3*3=27 -> 4: A 28, G 4
        m = torch.nn.Sequential(
            torch.nn.Conv2d(2, 3, kernel_size=2, stride=1, padding=0),
            Act(),
            torch.nn.Flatten(),
            torch.nn.Linear(27, 4),
        )
    elif name == 'conv2':
        # rectangular kernel, stride, padding: in (2,5,4) -> out (3,3,3)
        # A 2*3*2+1=13, G 3 ; linear 27 -> 4: A 28, G 4
        m = torch.nn.Sequential(
            torch.nn.Conv2d(2, 3, kernel_size=(3, 2), stride=(2, 1),
                            padding=(1, 0)),
            Act(),
            torch.nn.Flatten(),
            torch.nn.Linear(27, 4),
        )
    elif name == 'nd':
        # linear layers applied to 3-D inputs (B, T=3, features)
        m = torch.nn.Sequential(
            torch.nn.Linear(4, 5), Act(),
            torch.nn.Linear(5, 2, bias=False),
        )
    elif name == 'conv3':
        # conv -> activation -> conv without padding: the second conv's input
        # is a tensor an upstream op saved for its backward pass
        m = torch.nn.Sequential(
            torch.nn.Conv2d(2, 3, kernel_size=2), Act(),
            torch.nn.Conv2d(3, 2, kernel_size=2, padding=0), Act(),
            torch.nn.Flatten(),
            torch.nn.Linear(8, 4),
        )
    elif name == 'eq':
        # equal-shaped layers (A 5x5, G 4x4 for all three): same-sized
        # tensors are in flight at the same time
        m = torch.nn.Sequential(
            torch.nn.Linear(4, 4), Act(),
            torch.nn.Linear(4, 4), Act(),
            torch.nn.Linear(4, 4),
        )
    elif name == 'mixb':
        # bias-free, biased, bias-free: a bias-free layer is registered
        # before a biased one (A 3,6,4  G 5,4,2)
        m = torch.nn.Sequential(
            torch.nn.Linear(3, 5, bias=False), Act(),
            torch.nn.Linear(5, 4, bias=True), Act(),
            torch.nn.Linear(4, 2, bias=False),
        )
    elif name == 'bigconv':
        # a large feature map (batch 8 x 96 x 96 = 73 728 patch rows) followed
        # by a STOCHASTIC layer: K-FAC's hooks must not consume the global
        # random state
        m = torch.nn.Sequential(
            torch.nn.Conv2d(1, 2, kernel_size=3, padding=1),
            torch.nn.Dropout(0.5), Act(),
            torch.nn.AdaptiveAvgPool2d(4), torch.nn.Flatten(),
            torch.nn.Linear(32, 4),
        )
    elif name == 'ndt':
        # N-d linear whose output is TRANSPOSED before use (attention style):
        # the gradient w.r.t. its output reaches the hook non-contiguous
        class NdT(torch.nn.Module):
            def __init__(self) -> None:
                super().__init__()
                self.proj = torch.nn.Linear(4, 5)
                self.mix = torch.nn.Linear(3, 2, bias=False)

            def forward(self, x):                  # (B, 3, 4)
                y = self.proj(x)                   # (B, 3, 5)
                return self.mix(torch.tanh(y.transpose(1, 2)))   # (B, 5, 2)
        m = NdT()
    elif name == 'featcls':
        # torchvision style: the registration order (features.0, features.2,
        # classifier) is NOT the lexicographic order of the layer names
        class FeatCls(torch.nn.Module):
            def __init__(self) -> None:
                super().__init__()
                self.features = torch.nn.Sequential(
                    torch.nn.Linear(3, 5), Act(), torch.nn.Linear(5, 4))
                self.classifier = torch.nn.Linear(4, 2)

            def forward(self, x):
                return self.classifier(torch.tanh(self.features(x)))
        m = FeatCls()
    elif name == 'wide':
        # wide enough for second-order data kept in low precision to lose
        # positive definiteness (C07: negative <V, D>)
        m = torch.nn.Sequential(
            torch.nn.Linear(32, 32), Act(),
            torch.nn.Linear(32, 8),
        )
    elif name == 'mlp4':
        # four layers for load-balancing variety; A 5,8,6,4 G 7,... distinct
        m = torch.nn.Sequential(
            torch.nn.Linear(4, 7), Act(),
            torch.nn.Linear(7, 5, bias=False), Act(),   # A 7 ! clash with G 7
            torch.nn.Linear(5, 3), Act(),
            torch.nn.Linear(3, 2),
        )
    else:
        raise ValueError(name)
    with torch.no_grad():
        for p in m.parameters():
            p.copy_(torch.randn(p.shape, generator=g) * 0.5)
    return m.to(dtype)


def in_shape(name: str) -> tuple[int, ...]:
    return {'mlp3': (4,), 'mlp2': (3,), 'mlp2nb': (3,), 'conv': (2, 4, 4),
            'mlp4': (4,), 'bigconv': (1, 96, 96), 'ndt': (3, 4), 'wide': (32,), 'featcls': (3,), 'conv2': (2, 5, 4), 'nd': (3, 4), 'mixb': (3,), 'eq': (4,), 'conv3': (2, 4, 4)}[name]


def out_shape(name: str) -> tuple[int, ...]:
    return {'mlp3': (2,), 'mlp2': (3,), 'mlp2nb': (2,), 'conv': (4,),
            'mlp4': (2,), 'bigconv': (4,), 'ndt': (5, 2), 'wide': (8,), 'featcls': (2,), 'conv2': (4,), 'nd': (3, 2), 'mixb': (2,), 'eq': (4,), 'conv3': (4,)}[name]


def make_batch(cfg: Config, seed: int, rank: int, it: int, mb: int,
               dtype: torch.dtype) -> tuple[torch.Tensor, torch.Tensor]:
    if cfg.union > 1:
        one = Config(**{**asdict(cfg), 'union': 1})
        parts = [make_batch(one, seed, r, it, mb, dtype)
                 for r in range(cfg.union)]
        return (torch.cat([p[0] for p in parts]),
                torch.cat([p[1] for p in parts]))
    g = torch.Generator().manual_seed(
        7919 * seed + 104729 * rank + 1299709 * it + 15485863 * mb + 17,
    )
    # the batch size varies from iteration to iteration (same on all ranks)
    bs = cfg.batch + (it + mb) % 3
    x = torch.randn((bs,) + in_shape(cfg.model), generator=g)
    y = torch.randn((bs,) + out_shape(cfg.model), generator=g)
    return (x * cfg.in_scale).to(dtype), y.to(dtype)


def loss_fn(out: torch.Tensor, y: torch.Tensor, local_batch: int,
            scale: float | None) -> torch.Tensor:
    # sum / local batch size: the arrangement under which per-sample output
    # gradients coincide between the distributed and the union-batch run
    local_batch = out.shape[0] if local_batch is None else local_batch
    loss = ((out - y) ** 2).sum() / (2 * local_batch)
    if scale is not None:
        loss = loss * scale
    return loss


def perturbed(cfg: Config) -> Config:
    """Same configuration with different CONSTANT scalar hyper-parameters."""
    d = asdict(cfg)
    if not isinstance(cfg.damping, str):
        d['damping'] = cfg.damping * 3.0
    if not isinstance(cfg.decay, str):
        d['decay'] = 0.5 if cfg.decay != 0.5 else 0.75
    if cfg.kl_clip is not None and not isinstance(cfg.kl_clip, str):
        # constructed WITHOUT clipping: the checkpoint restores the number
        d['kl_clip'] = None
    if not isinstance(cfg.lr, str):
        d['lr'] = cfg.lr * 0.5 + 0.01
    if not isinstance(cfg.F, str):
        d['F'] = cfg.F + 1
    if not isinstance(cfg.I, str):
        d['I'] = cfg.I + 2
    d['fresh_perturb'] = False
    return Config(**d)


def build_precond(cfg: Config, model: torch.nn.Module) -> Any:
    import kfac
    from kfac.enums import DistributedStrategy
    from kfac.preconditioner import KFACPreconditioner

    if cfg.frac_spelling == 'enum':
        if cfg.k == cfg.W:
            frac: Any = DistributedStrategy.COMM_OPT
        elif cfg.k == 1:
            frac = DistributedStrategy.MEM_OPT
        elif cfg.k * 2 == cfg.W:
            frac = DistributedStrategy.HYBRID_OPT
        else:
            frac = cfg.k / cfg.W
    else:
        frac = cfg.k / cfg.W
    kwargs: dict[str, Any] = dict(
        factor_update_steps=hp(cfg.F),
        inv_update_steps=hp(cfg.I),
        damping=hp(cfg.damping),
        factor_decay=hp(cfg.decay),
        kl_clip=hp(cfg.kl_clip),
        lr=hp(cfg.lr),
        accumulation_steps=cfg.accum,
        allreduce_bucket_cap_mb=cfg.bucket_cap_mb,
        assignment_strategy=cfg.heuristic,
        colocate_factors=cfg.colocate,
        compute_method=cfg.method,
        compute_eigenvalue_outer_product=cfg.prediv,
        grad_worker_fraction=frac,
        symmetry_aware=cfg.symmetry,
        factor_dtype=DT[cfg.factor_dtype],
        inv_dtype=DT[cfg.inv_dtype],
        skip_layers=list(cfg.skip_layers),
        update_factors_in_hook=cfg.in_hook,
    )
    cell = {'v': loss_scale(cfg, 0, 0)}
    if cfg.grad_scaler is not None:
        kwargs['grad_scaler'] = lambda: cell['v']
    pre = KFACPreconditioner(model, **kwargs)
    pre._verif_scale_cell = cell        # the driver's GradScaler state
    return pre


def loss_scale(cfg: 'Config', it: int, mb: int) -> float | None:
    """The loss scale in effect for micro-batch mb of iteration it."""
    gs = cfg.grad_scaler
    if gs is None:
        return None
    if isinstance(gs, str):
        return float(gs[3:]) * 2 ** ((it + 2 * mb) % 3)
    return float(gs)


def scaled_backward(model: torch.nn.Module, pre: Any, loss: torch.Tensor,
                    scale: float | None) -> None:
    """loss.backward() under loss scaling: the gradients of this micro-batch
    are unscaled with ITS scale and added to what is already accumulated."""
    if scale is None:
        loss.backward()
        return
    pre._verif_scale_cell['v'] = scale
    params = [p for p in model.parameters()]
    prev = [None if p.grad is None else p.grad.detach().clone()
            for p in params]
    for p in params:
        p.grad = None
    (loss * scale).backward()
    with torch.no_grad():
        for p, g0 in zip(params, prev):
            if p.grad is None:
                p.grad = g0
                continue
            p.grad.div_(scale)
            if g0 is not None:
                p.grad.add_(g0)


SECOND_ORDER_EXCLUDE = {
    'a_factor', 'g_factor', 'a_batch', 'g_batch', 'grad',
}


def layer_holdings(layer: Any) -> dict[str, int]:
    """Generic scan: tensor-valued attributes of a KFAC layer object.

    Returns attribute name (without leading underscores) -> bytes for every
    tensor (or resolved future of a tensor) attribute.  Does not trigger any
    wait: futures that are not done are reported with -1.
    """
    out: dict[str, int] = {}
    seen: set[int] = set()

    def visit(name: str, v: Any, depth: int) -> None:
        if isinstance(v, (torch._C.Future, torch.futures.Future)):
            if not v.done():
                out[name] = -1
                return
            try:
                v = v.value()
            except Exception:  # noqa: BLE001
                out[name] = -1
                return
            if not isinstance(v, torch.Tensor):
                out[name] = -1
                return
        if isinstance(v, torch.Tensor):
            key = v.untyped_storage().data_ptr() if v.numel() else id(v)
            if key in seen:
                return
            seen.add(key)
            out[name] = v.nelement() * v.element_size()
        elif depth < 2 and isinstance(v, dict):
            for k2, v2 in v.items():
                visit(f'{name}.{k2}', v2, depth + 1)
        elif depth < 2 and isinstance(v, (list, tuple)):
            for i, v2 in enumerate(v):
                visit(f'{name}.{i}', v2, depth + 1)
        elif depth < 2 and type(v).__module__.startswith('kfac.layers') \
                and not isinstance(v, torch.nn.Module) \
                and hasattr(v, '__dict__') and not hasattr(v, 'module'):
            # small private helper objects (accumulators ...)
            for k2, v2 in vars(v).items():
                visit(f'{name}.{k2.lstrip("_")}', v2, depth + 1)

    for k, v in vars(layer).items():
        if k in ('module', 'tdc'):
            continue
        visit(k.lstrip('_'), v, 0)
    return out


def _public_tensor_ids(layer: Any) -> set[int]:
    """Storage ids of the tensors behind the PUBLIC factor / gradient
    attributes (never blocking)."""
    from harness import simdist
    ids = set()
    for attr in ('a_factor', 'g_factor', 'grad'):
        try:
            with simdist.nonblocking():
                t = getattr(layer, attr, None)
        except Exception:  # noqa: BLE001
            t = None
        if isinstance(t, torch.Tensor) and t.numel():
            ids.add(t.untyped_storage().data_ptr())
    return ids


def _second_order_public(layer: Any) -> dict[str, int]:
    """Second-order data read through the PUBLIC attributes of the eigen /
    inverse layers (used when the private layout is not the pinned one)."""
    from harness import simdist
    out = {}
    for attr in ('qa', 'qg', 'da', 'dg', 'dgda', 'a_inv', 'g_inv'):
        try:
            with simdist.nonblocking():
                t = getattr(layer, attr, None)
        except simdist.WouldBlock:
            out[attr] = -1
            continue
        except Exception:  # noqa: BLE001
            continue
        if isinstance(t, torch.Tensor):
            out[attr] = t.nelement() * t.element_size()
    return out


def second_order_held(layer: Any) -> dict[str, int]:
    d = vars(layer)
    if not any(('_' + k) in d or k in d for k in ('a_factor', 'g_factor')):
        return _second_order_public(layer)
    return {
        k: v for k, v in layer_holdings(layer).items()
        if k not in SECOND_ORDER_EXCLUDE
    }


class RankRun:
    """State of one rank while interpreting a history."""

    def __init__(self, cfg: Config, seed: int, rank: int) -> None:
        self.cfg = cfg
        self.seed = seed
        self.rank = rank
        self.dtype = DT[cfg.param_dtype]
        self.model = make_model(cfg.model, seed, self.dtype)
        self.pre = build_precond(cfg, self.model)
        if cfg.steps0:
            import warnings as _w
            with _w.catch_warnings():
                _w.simplefilter('ignore')
                self.pre.load_state_dict({'steps': int(cfg.steps0)},
                                         compute_inverses=False)
        self.sched = None
        self._make_sched()
        self.it = 0
        self.ckpt: Any = None
        self.snaps: list[dict[str, Any]] = []
        self.log: list[dict[str, Any]] = []
        self.have_grads = False
        self.captures: list[dict[str, Any]] = []
        self.capture = False

    def _make_sched(self) -> None:
        if self.cfg.sched:
            from kfac.scheduler import LambdaParamScheduler

            kw = {f'{p}_lambda': FUNCS[f] for p, f in self.cfg.sched.items()}
            self.sched = LambdaParamScheduler(self.pre, **kw)

    # ------------------------------------------------------------------
    def registered(self) -> list[tuple[str, Any]]:
        return [(n, l) for n, l in self.pre._layers.values()]

    def grads(self) -> dict[str, torch.Tensor]:
        return {
            n: p.grad.detach().clone()
            for n, p in self.model.named_parameters() if p.grad is not None
        }

    def do_train(self, n_micro: int, mode_train: bool = True,
                 backward: bool = True) -> None:
        cfg = self.cfg
        self.model.train(mode_train)
        self.model.zero_grad(set_to_none=not self.cfg.keep_grads)
        for mb in range(n_micro):
            x, y = make_batch(cfg, self.seed, self.rank, self.it, mb,
                              self.dtype)
            if self.capture:
                self.captures.append(
                    {'it': self.it, 'mb': mb, 'x': x, 'y': y,
                     'train': mode_train, 'backward': backward,
                     'steps': self.pre.steps},
                )
            sc = loss_scale(cfg, self.it, mb)
            if sc is not None:
                self.pre._verif_scale_cell['v'] = sc
            out = self.model(x)
            if backward:
                loss = loss_fn(out, y, out.shape[0] // cfg.union, None)
                if cfg.overflow and list(cfg.overflow) == [self.it, self.rank]:
                    loss = loss * float('inf')
                scaled_backward(self.model, self.pre, loss, sc)
        if backward:
            with torch.no_grad():
                for p in self.model.parameters():
                    if p.grad is None:
                        continue
                    if n_micro > 1:
                        p.grad.div_(n_micro)
            if cfg.W > 1 and cfg.ddp:
                with simdist.owner('driver'):
                    for p in self.model.parameters():
                        if p.grad is not None:
                            torch.distributed.all_reduce(p.grad)
                            p.grad.div_(cfg.W)
            self.have_grads = True
        self.it += 1

    def snapshot(self, tag: str) -> dict[str, Any]:
        pre = self.pre
        snap: dict[str, Any] = {
            'tag': tag, 'steps': pre.steps, 'it': self.it,
            'grads': self.grads(),
            'hold': {n: second_order_held(l) for n, l in self.registered()},
            'allhold': {n: layer_holdings(l) for n, l in self.registered()},
        }
        self.snaps.append(snap)
        return snap

    def sgd(self) -> None:
        with torch.no_grad():
            for p in self.model.parameters():
                if p.grad is not None:
                    p.add_(p.grad, alpha=-self.cfg.sgd_lr)

    def apply(self, op: list[Any], set_ctx: bool = True) -> None:
        kind = op[0]
        rec: dict[str, Any] = {'op': op}
        self.opno = getattr(self, 'opno', -1) + 1
        if set_ctx:
            simdist.set_ctx({'op': kind, 'n': self.opno})
        try:
            if kind == 'train':
                self.do_train(op[1] if len(op) > 1 else 1)
            elif kind == 'fwdonly':
                self.do_train(1, backward=False)
            elif kind == 'eval':
                self.do_train(1, mode_train=False)
            elif kind == 'step':
                pre_grads = self.grads()
                self.pre.step()
                s = self.snapshot('step')
                s['pre_grads'] = pre_grads
                self.sgd()
                self.have_grads = False
            elif kind == 'indef':
                # resume from a checkpoint whose A factors are negative
                # definite (public API only): with explicit inverses the
                # preconditioner is then indefinite and <V, D> negative
                # ['indef', c]: A := -c I;  ['indef', c, 'G', 'alt']: the
                # named factors := c diag(+1, -1, +1, ...) (symmetric, not
                # positive semi-definite)
                sd = self.pre.state_dict()
                which = op[2] if len(op) > 2 else 'A'
                for lsd in sd['layers'].values():
                    for f in which:
                        a = lsd[f]
                        if len(op) > 3 and op[3] == 'alt':
                            sign = torch.tensor(
                                [1.0 if i % 2 == 0 else -1.0
                                 for i in range(a.shape[0])], dtype=a.dtype)
                            lsd[f] = float(op[1]) * torch.diag(sign)
                        else:
                            lsd[f] = -float(op[1]) * torch.eye(
                                a.shape[0], dtype=a.dtype)
                self.pre.load_state_dict(sd)
            elif kind == 'reset':
                self.pre.reset_batch()
            elif kind == 'reset_on':
                # reset_batch() implies no collective: a subset of the ranks
                # may drop the statistics of the current iteration
                if self.rank in op[1]:
                    self.pre.reset_batch()
            elif kind == 'sched':
                assert self.sched is not None
                self.sched.step(op[1] if len(op) > 1 else None)
            elif kind in ('save', 'save_on'):
                if kind == 'save_on' and self.rank not in op[1]:
                    pass
                else:
                    inc = op[-1] if len(op) > 1 else True
                    sd = self.pre.state_dict(include_factors=bool(inc))
                    buf = io.BytesIO()
                    torch.save(sd, buf)
                    buf.seek(0)
                    self.ckpt = torch.load(buf, weights_only=False)
                    self.ckpt_live = sd
                    rec['ckpt_keys'] = sorted(sd.keys())
            elif kind == 'load':
                comp = op[1] if len(op) > 1 else True
                new_model = make_model(self.cfg.model, self.seed, self.dtype)
                new_model.load_state_dict(self.model.state_dict())
                # keep current gradients (a resume happens between a
                # backward pass and a step only in our histories if grads
                # exist; we copy them so that the step after a load is valid)
                for (n, p), (_, q) in zip(self.model.named_parameters(),
                                          new_model.named_parameters()):
                    if p.grad is not None:
                        q.grad = p.grad.detach().clone()
                self.model = new_model
                self.pre = build_precond(
                    perturbed(self.cfg) if self.cfg.fresh_perturb else self.cfg,
                    self.model)
                self._make_sched()
                self.pre.load_state_dict(
                    self.ckpt_live if self.cfg.inmem_ckpt
                    else copy.deepcopy(self.ckpt),
                    compute_inverses=bool(comp),
                )
                self.snapshot('load')
            elif kind in ('mem', 'mem_on'):
                if kind == 'mem_on' and self.rank not in op[1]:
                    pass
                else:
                    mu = dict(self.pre.memory_usage())
                    rec['mem'] = mu
                    rec['allhold'] = {
                        n: layer_holdings(l) for n, l in self.registered()
                    }
            else:
                raise ValueError(f'unknown op {op}')
            rec['ok'] = True
        except simdist.SimStall:
            raise
        except Exception as e:  # noqa: BLE001
            rec['ok'] = False
            rec['exc'] = type(e).__name__
            rec['msg'] = str(e)[:300]
            self.log.append(rec)
            raise
        self.log.append(rec)


@dataclass
class RunResult:
    cfg: Config
    history: list[Any]
    policy: str
    ranks: list[RankRun | None]
    errors: list[str | None]
    monitors: list[dict[str, Any]]
    events: list[dict[str, Any]]
    stall: Any
    programs: dict[int, list[dict]]
    groups: dict[int, tuple[int, ...]]
    unattributed_waits: int
    n_actions: int


def run(cfg: Config, history: list[Any], policy: simdist.Policy | None = None,
        seed: int = 0, capture: bool = False,
        on_rank: Callable[[RankRun], None] | None = None) -> RunResult:
    """Execute `history` on every rank of a simulated world."""
    torch.set_num_threads(1)
    ranks: list[RankRun | None] = [None] * cfg.W

    def body(r: int) -> None:
        simdist.set_ctx({'op': 'construct', 'n': -1})
        rr = RankRun(cfg, seed, r)
        rr.capture = capture
        ranks[r] = rr
        if on_rank is not None:
            on_rank(rr)
        for op in history:
            rr.apply(op)

    if cfg.W == 1 and policy is None:
        # solo mode: no simulated world at all (dist not initialised)
        err: list[str | None] = [None]
        try:
            body(0)
        except Exception as e:  # noqa: BLE001
            err = [f'{type(e).__name__}: {e}']
        return RunResult(cfg, history, 'solo', ranks, err, [], [], None,
                         {0: []}, {0: (0,)}, 0, 0)

    world = simdist.World(cfg.W, policy or simdist.RandomPolicy(seed))
    world.run(body)
    errors = [
        None if rs.error is None else f'{type(rs.error).__name__}: {rs.error}'
        for rs in world.ranks
    ]
    return RunResult(
        cfg, history, world.policy.name, ranks, errors, world.monitors,
        world.events, world.stall, world.programs(), dict(world.groups),
        world.unattributed_waits, world.n_actions,
    )
