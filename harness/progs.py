"""Extracted per-rank communication programs -> constants of spec/Comm.tla."""

from __future__ import annotations

from typing import Any

from harness.tlc import tla, run_tlc, TLCResult


def normalise(progs: dict[int, list[dict]], owner: str | None = None,
              ) -> dict[int, list[dict]]:
    """Uniform op records for Comm.tla.

    Slot indices are 1-based in the spec.  NG ops get their ordinal.
    """
    out: dict[int, list[dict]] = {}
    for r, prog in progs.items():
        ops = []
        ng = 0
        for op in prog:
            if op['t'] == 'NG':
                ng += 1
                ops.append({
                    't': 'NG', 'g': -1, 'i': ng, 'kind': 'new_group',
                    'root': -1, 'numel': 0, 'dtype': 'none',
                    'ranks': set(op['ranks']),
                })
            elif op['t'] == 'I':
                ops.append({
                    't': 'I', 'g': op['g'], 'i': op['i'] + 1,
                    'kind': op['kind'],
                    'root': -1 if op['root'] is None else op['root'],
                    'numel': 0 if op['numel'] is None else op['numel'],
                    'dtype': op['dtype'] or 'none',
                    'ranks': set(),
                })
            elif op['t'] == 'W':
                ops.append({
                    't': 'W', 'g': op['g'], 'i': op['i'] + 1,
                    'kind': 'wait', 'root': -1, 'numel': 0, 'dtype': 'none',
                    'ranks': set(),
                })
            elif op['t'] == 'F':
                ops.append({
                    't': 'F', 'g': -1, 'i': 0, 'kind': op['kind'],
                    'root': -1, 'numel': 0, 'dtype': 'none', 'ranks': set(),
                })
        out[r] = ops
    return out


def comm_module(name: str, progs: dict[int, list[dict]],
                groups: dict[int, tuple[int, ...]]) -> str:
    W = len(progs)
    nprogs = normalise(progs)
    used = {op['g'] for p in nprogs.values() for op in p if op['g'] >= 0}
    gs = {g: set(m) for g, m in groups.items() if g in used or g == 0}
    for g in used:
        if g not in gs:
            gs[g] = set()
    lines = [
        f'Ranks == 0..{W - 1}',
        f'Groups == {tla(set(gs))}',
        f'Members == {tla(gs)}',
        'Prog == (',
    ]
    parts = []
    for r in range(W):
        parts.append(f'  {r} :> {tla(nprogs[r])}')
    lines.append(' @@\n'.join(parts))
    lines.append(')')
    return instantiate('Comm', name, '\n'.join(lines) + '\n')


def instantiate(module: str, name: str, defs: str) -> str:
    """Copy of spec/<module>.tla with its CONSTANTS block replaced by defs."""
    import os
    import re
    from harness.tlc import SPEC_DIR

    with open(os.path.join(SPEC_DIR, module + '.tla')) as f:
        src = f.read()
    a = src.index('\\* BEGIN-CONSTANTS')
    b = src.index('\\* END-CONSTANTS')
    src = src[:a] + defs + src[b:]
    src = re.sub(r'MODULE ' + module + r'\b', 'MODULE ' + name, src, count=1)
    return src


COMM_INVARIANTS = [
    'MemberOnly', 'NoForeign', 'MatchInv', 'OnlyMembersJoin',
    'SameNewGroupSeq', 'WaitOwnSlot',
]


def comm_cfg(por: Any, liveness: bool = False) -> str:
    """por: False (full) | True/'por' | 'lin'."""
    if por == 'lin':
        spec = 'SpecLIN'
    elif por:
        spec = 'SpecPOR'
    else:
        spec = 'FairSpec' if liveness else 'Spec'
    lines = [f'SPECIFICATION {spec}']
    for inv in COMM_INVARIANTS:
        lines.append(f'INVARIANT {inv}')
    if liveness:
        lines.append('PROPERTY Termination')
    lines.append('CHECK_DEADLOCK TRUE')
    return '\n'.join(lines) + '\n'


def check_programs(progs: dict[int, list[dict]],
                   groups: dict[int, tuple[int, ...]], por: Any = False,
                   liveness: bool = False, workers: Any = 'auto',
                   timeout: int = 600, name: str = 'MC_CommX') -> TLCResult:
    mod = comm_module(name, progs, groups)
    return run_tlc(name, cfg_text=comm_cfg(por, liveness),
                   extra_modules={name: mod}, workers=workers,
                   timeout=timeout)


def strip(progs: dict[int, list[dict]]) -> dict[int, list[tuple]]:
    """Schedule-independent signature of programs (for comparison): what is
    ISSUED, in which order.  Where a rank waits for an operation it issued is
    not part of the property (and an observation of the harness that resolves
    a completed future can move it)."""
    out = {}
    for r, p in progs.items():
        p = [op for op in p if op['t'] != 'W']
        out[r] = [
            (op['t'], op.get('g'), op.get('i'), op.get('kind'),
             op.get('root'), op.get('numel'), op.get('dtype'),
             tuple(op['ranks']) if op['t'] == 'NG' else None)
            for op in p
        ]
    return out
