"""spec/KfacConfig.tla: enumerate configurations, replay the constructor."""

from __future__ import annotations

import json
import warnings
from typing import Any

from harness import simdist
from harness.progs import instantiate
from harness.tlc import run_tlc, tla, TLCResult

CAPS = {'neg': -1.0, 'zero': 0.0, 'tiny': 0.00004, 'big': 25.0}


def enumerate_configs(worlds: list[int], caps: list[str],
                      ) -> tuple[TLCResult, list[dict[str, Any]]]:
    defs = f'Worlds == {tla(set(worlds))}\nCaps == {tla(set(caps))}\n'
    name = 'MC_KfacConfig'
    mod = instantiate('KfacConfig', name, defs)
    cfg = ('SPECIFICATION Spec\nINVARIANT StrategyFlags\n'
           'INVARIANT MemOptColocated\nINVARIANT Emit\n'
           'CHECK_DEADLOCK FALSE\n')
    r = run_tlc(name, cfg_text=cfg, extra_modules={name: mod}, workers=4,
                deadlock=False, timeout=600)
    out = []
    for line in r.stdout.splitlines():
        if line.startswith('"{'):
            try:
                out.append(json.loads(json.loads(line)))
            except Exception:  # noqa: BLE001
                pass
    return r, out


def check_constructor(t: dict[str, Any]) -> str | None:
    """Construct the real preconditioner for tuple t on every rank."""
    import torch
    from kfac.enums import AllreduceMethod, DistributedStrategy
    from kfac.preconditioner import KFACPreconditioner

    c, d = t['c'], t['d']
    W, k = c['W'], c['k']
    for rank in sorted({0, W - 1, W // 2}):
        model = torch.nn.Sequential(torch.nn.Linear(3, 4),
                                    torch.nn.Linear(4, 2))
        err = None
        pre = None
        try:
            with simdist.SoloWorld(rank, W):
                with warnings.catch_warnings():
                    warnings.simplefilter('ignore')
                    pre = KFACPreconditioner(
                        model, grad_worker_fraction=k / W,
                        colocate_factors=c['colocate'],
                        compute_method=c['method'],
                        compute_eigenvalue_outer_product=c['prediv'],
                        allreduce_bucket_cap_mb=CAPS[c['cap']],
                        symmetry_aware=c['sym'],
                        assignment_strategy=c['heuristic'])
        except ValueError as e:
            err = e
        if d['rejected']:
            if err is None:
                return f'rank {rank}: invalid configuration accepted'
            continue
        if err is not None:
            return f'rank {rank}: valid configuration rejected: {err}'
        if pre.distributed_strategy != DistributedStrategy[d['strategy']]:
            return f'strategy {pre.distributed_strategy} spec {d["strategy"]}'
        if pre.colocate_factors != d['colocate']:
            return f'colocate_factors {pre.colocate_factors}'
        want_m = (AllreduceMethod.ALLREDUCE_BUCKETED if d['bucketed']
                  else AllreduceMethod.ALLREDUCE)
        if pre.allreduce_method != want_m:
            return f'allreduce_method {pre.allreduce_method}'
        a = pre._assignment
        if a.grad_workers != k:
            return f'grad_workers {a.grad_workers} != {k}'
        if a.broadcast_gradients() != d['bcast_grad'] or \
                a.broadcast_inverses() != d['bcast_inv']:
            return 'broadcast flags differ'
        if a.colocate_factors != d['colocate']:
            return 'assignment colocate differs'
        for _, layer in pre._layers.values():
            if layer.symmetry_aware != c['sym']:
                return 'symmetry_aware not propagated'
            if layer.allreduce_method != want_m:
                return 'layer allreduce_method differs'
            if c['method'] == 'eigen' and \
                    layer.prediv_eigenvalues != c['prediv']:
                return 'prediv not propagated'
    return None


def to_kaisa(c: dict[str, Any]) -> dict[str, Any]:
    """Configuration tuple -> kwargs of harness.kaisa.Config."""
    return dict(W=c['W'], k=c['k'], colocate=c['colocate'],
                method=c['method'], prediv=c['prediv'],
                bucket_cap_mb=CAPS[c['cap']], symmetry=c['sym'],
                heuristic=c['heuristic'])
