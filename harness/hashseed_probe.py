"""Run in a FRESH interpreter (own PYTHONHASHSEED): evaluate assignments for
the tuples in the JSON file given as argv[1]; print the results as JSON."""
import json
import sys

sys.dont_write_bytecode = True
sys.path.insert(0, sys.argv[2])
import warnings

warnings.filterwarnings('ignore')
from kfac.assignment import KAISAAssignment  # noqa: E402

tuples = json.load(open(sys.argv[1]))
out = []
for t in tuples:
    work = {l['name']: {x['f']: x['c'] for x in l['fs']} for l in t['work']}
    if t['tag'] == 'greedy':
        res = KAISAAssignment.greedy_assignment(
            work, [list(g) for g in t['groups']], t['W'], t['colocate'])
        out.append(res)
    else:
        per_rank = []
        for r in range(t['W']):
            calls = []
            a = KAISAAssignment(
                work, local_rank=r, world_size=t['W'],
                grad_worker_fraction=t['k'] / t['W'],
                group_func=lambda ranks: calls.append(sorted(ranks)),
                colocate_factors=t['colocate'])
            per_rank.append({
                'inv': {n: {f: a.inv_worker(n, f) for f in a.get_factors(n)}
                        for n in a.get_layers()},
                'gw': {n: a.is_grad_worker(n) for n in a.get_layers()},
                'src': {n: a.src_grad_worker(n) for n in a.get_layers()},
                'groups': calls})
        out.append(per_rank)
print(json.dumps(out, sort_keys=True))
