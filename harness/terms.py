"""Float64 interpretation of the symbolic terms of spec/KfacRef.tla.

Independent of the kfac package: second moments are computed from tensors the
driver captured with its own hooks (torch.nn.functional.unfold for
convolutions), the EMA is the recurrence, and the preconditioned gradient is
obtained by solving the defining Kronecker system in float64 -- not by the
implementation's formula.
"""

from __future__ import annotations

import math
from typing import Any

import torch

from harness.kaisa import FUNCS

INIT_KEYS = {
    'damping': 'damping', 'factor_decay': 'decay', 'kl_clip': 'kl_clip',
    'lr': 'lr',
}


class Interp:
    def __init__(self, cfg: Any, layers: dict[str, torch.nn.Module],
                 world: int = 1) -> None:
        self.cfg = cfg
        self.layers = layers
        # captures[pass_id][layer_name] = {'x': ..., 'g': ...} ; for W > 1 the
        # lists hold one entry per rank (union batch = mean over ranks)
        self.captures: dict[int, dict[str, dict[str, list]]] = {}
        self._cov_cache: dict[tuple, torch.Tensor] = {}
        # loss scale in effect for each pass (set by the driver)
        self.scales: dict[int, float] = {}

    # -- hyper-parameters ------------------------------------------------
    def hpval(self, d: dict[str, Any]) -> float | None:
        p = d['p']
        kind = d['kind']
        v = getattr(self.cfg, INIT_KEYS[p])
        if kind == 'none':
            return None
        if kind == 'fn':
            return FUNCS[v](d['at'])
        val = v
        fn = self.cfg.sched.get(p)
        for a in d['log']:
            val *= FUNCS[fn](a)
        return val

    # -- second moments ----------------------------------------------------
    def cov(self, pid: int, name: str, kind: str) -> torch.Tensor:
        key = (pid, name, kind)
        if key in self._cov_cache:
            return self._cov_cache[key]
        mod = self.layers[name]
        caps = self.captures[pid][name]['x' if kind == 'A' else 'g']
        acc = None
        for t in caps:
            t = t.double()
            if kind == 'A':
                c = self._cov_a(mod, t)
            else:
                if self.cfg.grad_scaler is not None:
                    t = t / self.scales[pid]
                c = self._cov_g(mod, t)
            acc = c if acc is None else acc + c
        out = acc / len(caps)
        self._cov_cache[key] = out
        return out

    @staticmethod
    def _cov_a(mod: torch.nn.Module, x: torch.Tensor) -> torch.Tensor:
        has_bias = getattr(mod, 'bias', None) is not None
        if isinstance(mod, torch.nn.Conv2d):
            u = torch.nn.functional.unfold(
                x, mod.kernel_size, dilation=1, padding=mod.padding,
                stride=mod.stride)                     # (N, C*kh*kw, L)
            spatial = u.shape[-1]
            a = u.transpose(1, 2).reshape(-1, u.shape[1])
            if has_bias:
                a = torch.cat([a, torch.ones(a.shape[0], 1, dtype=a.dtype)], 1)
            a = a / spatial
        else:
            a = x.reshape(-1, x.shape[-1])
            if has_bias:
                a = torch.cat([a, torch.ones(a.shape[0], 1, dtype=a.dtype)], 1)
        return a.t() @ a / a.shape[0]

    @staticmethod
    def _cov_g(mod: torch.nn.Module, g: torch.Tensor) -> torch.Tensor:
        if isinstance(mod, torch.nn.Conv2d):
            spatial = g.shape[2] * g.shape[3]
            r = g.permute(0, 2, 3, 1).reshape(-1, g.shape[1]) / spatial
        else:
            r = g.reshape(-1, g.shape[-1])
        return r.t() @ r / r.shape[0]

    def factor(self, term: dict[str, Any], name: str, kind: str,
               ) -> torch.Tensor | None:
        if not term['has']:
            return None
        mod = self.layers[name]
        n = self.factor_dim(mod, kind)
        m = torch.eye(n, dtype=torch.float64)
        for up in term['ups']:
            alpha = self.hpval(up['alpha'])
            mean = None
            for pid in up['mbs']:
                c = self.cov(pid, name, kind)
                mean = c if mean is None else mean + c
            mean = mean / len(up['mbs'])
            m = alpha * m + (1 - alpha) * mean
        return m

    @staticmethod
    def factor_dim(mod: torch.nn.Module, kind: str) -> int:
        has_bias = getattr(mod, 'bias', None) is not None
        if isinstance(mod, torch.nn.Conv2d):
            if kind == 'A':
                return (mod.in_channels * mod.kernel_size[0]
                        * mod.kernel_size[1] + int(has_bias))
            return mod.out_channels
        if kind == 'A':
            return mod.weight.shape[1] + int(has_bias)
        return mod.weight.shape[0]

    # -- preconditioning -------------------------------------------------------
    @staticmethod
    def psd(m: torch.Tensor) -> torch.Tensor:
        d, q = torch.linalg.eigh((m + m.t()) / 2)
        return q @ torch.diag(d.clamp(min=0.0)) @ q.t()

    def solve(self, a: torch.Tensor, g: torch.Tensor, d: torch.Tensor,
              method: str, lam_inv: float, lam_use: float) -> torch.Tensor:
        """V for the defining system (float64, Kronecker form)."""
        m, n = d.shape
        if method == 'inverse':
            lhs_g = g + lam_inv * torch.eye(m, dtype=torch.float64)
            lhs_a = a + lam_inv * torch.eye(n, dtype=torch.float64)
            return torch.linalg.solve(
                lhs_g, torch.linalg.solve(lhs_a.t(), d.t()).t())
        lam = lam_inv if method == 'eigen_prediv' else lam_use
        ap, gp = self.psd(a), self.psd(g)
        # vec (column major) of G V A  =  (A^T kron G) vec(V)
        k = torch.kron(ap.t().contiguous(), gp) \
            + lam * torch.eye(m * n, dtype=torch.float64)
        vec_d = d.t().reshape(-1)
        v = torch.linalg.solve(k, vec_d)
        return v.reshape(n, m).t()

    def residual(self, a, g, v, d, method, lam_inv, lam_use) -> float:
        if method == 'inverse':
            m, n = d.shape
            r = (g + lam_inv * torch.eye(m, dtype=torch.float64)) @ v @ \
                (a + lam_inv * torch.eye(n, dtype=torch.float64)) - d
        else:
            lam = lam_inv if method == 'eigen_prediv' else lam_use
            r = self.psd(g) @ v @ self.psd(a) + lam * v - d
        return (r.norm() / max(d.norm(), 1e-30)).item()

    def method(self) -> str:
        if self.cfg.method == 'inverse':
            return 'inverse'
        return 'eigen_prediv' if self.cfg.prediv else 'eigen'

    def combined(self, mod: torch.nn.Module,
                 grads: dict[str, torch.Tensor], name: str) -> torch.Tensor:
        w = grads[f'{name}.weight'].double()
        d = w.reshape(w.shape[0], -1)
        if getattr(mod, 'bias', None) is not None:
            d = torch.cat([d, grads[f'{name}.bias'].double().reshape(-1, 1)], 1)
        return d

    def grads(self, gterm: dict[str, Any], raw: dict[str, torch.Tensor],
              ) -> tuple[dict[str, torch.Tensor], dict[str, Any]]:
        """Expected final gradients of all registered layers + diagnostics."""
        inv = gterm['inv']
        lam_inv = self.hpval(inv['damp'])
        lam_use = self.hpval(gterm['dampUse'])
        vs, ds = {}, {}
        info: dict[str, Any] = {'cond': 0.0}
        for name, mod in self.layers.items():
            a = self.factor(inv['A'], name, 'A')
            g = self.factor(inv['G'], name, 'G')
            d = self.combined(mod, raw, name)
            # the reference must never crash on garbage produced by a broken
            # implementation (non-finite captures): fall back to NaN
            # expectations, which compare() reports as a mismatch
            try:
                v = self.solve(a, g, d, self.method(), lam_inv, lam_use)
                la = torch.linalg.eigvalsh((a + a.t()) / 2).max().item()
                lg = torch.linalg.eigvalsh((g + g.t()) / 2).max().item()
            except Exception:  # noqa: BLE001  (torch._C._LinAlgError etc.)
                v = torch.full_like(d, float('nan'))
                la = lg = float('nan')
                info['nonfinite'] = True
            vs[name], ds[name] = v, d
            info.setdefault('AG', {})[name] = (a, g)
            info['lams'] = (lam_inv, lam_use)
            lam = lam_use if self.method() == 'eigen' else lam_inv
            info['cond'] = max(
                info['cond'],
                (max(la, 0) * max(lg, 0) + lam) / lam if self.method() != 'inverse'
                else (la + lam) * (lg + lam) / lam ** 2)
        nu = 1.0
        if gterm['nu']['on']:
            kl = self.hpval(gterm['nu']['kl'])
            lr = self.hpval(gterm['nu']['lr'])
            vg = 0.0
            for name in self.layers:
                vg += (vs[name] * ds[name]).sum().item() * lr ** 2
            nu = 1.0 if vg == 0.0 else min(1.0, math.sqrt(kl / abs(vg)))
            info['vg'] = vg
            info['kl'] = kl
            info['lr'] = lr
        info['nu'] = nu
        out = {}
        for name, mod in self.layers.items():
            v = nu * vs[name]
            if getattr(mod, 'bias', None) is not None:
                out[f'{name}.weight'] = v[:, :-1].reshape(mod.weight.shape)
                out[f'{name}.bias'] = v[:, -1].reshape(mod.bias.shape)
            else:
                out[f'{name}.weight'] = v.reshape(mod.weight.shape)
        info['V'] = vs
        info['D'] = ds
        return out, info
