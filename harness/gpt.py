"""GPT-NeoX harness: topology stub, sharded layers, assignment replay."""

from __future__ import annotations

import json
import warnings
from typing import Any

import torch

from harness import simdist
from harness.progs import instantiate
from harness.tlc import run_tlc, tla, TLCResult


def gen_assign(maxp: int, maxd: int, maxm: int, maxworld: int, maxl: int,
               costs: list[int], ngmode: str, workers: int = 8,
               emit: bool = True) -> tuple[TLCResult, list[dict[str, Any]]]:
    defs = (f'MaxP == {maxp}\nMaxD == {maxd}\nMaxM == {maxm}\n'
            f'MaxWorld == {maxworld}\nMaxL == {maxl}\n'
            f'Costs == {tla(set(costs))}\nNGMode == "{ngmode}"\n')
    name = 'MC_GptAssign'
    mod = instantiate('GptAssign', name, defs)
    cfg = ('SPECIFICATION Spec\nINVARIANT OneWorkerPerLayer\n'
           'INVARIANT ViewsConsistent\nINVARIANT Balanced\n'
           'INVARIANT SameNewGroupSeq\n')
    if emit:
        cfg += 'INVARIANT Emit\n'
    cfg += 'CHECK_DEADLOCK FALSE\n'
    r = run_tlc(name, cfg_text=cfg, extra_modules={name: mod},
                workers=workers, deadlock=False, timeout=3600)
    out = []
    for line in r.stdout.splitlines():
        if line.startswith('"{'):
            try:
                out.append(json.loads(json.loads(line)))
            except Exception:  # noqa: BLE001
                pass
    return r, out


def check_assign(d: dict[str, Any]) -> str | None:
    """One real GPTNeoXAssignment per rank; compare every public query."""
    from deepspeed.runtime.pipe.topology import PipeModelDataParallelTopology
    from kfac.gpt_neox.assignment import GPTNeoXAssignment

    t = d['topo']
    P, D, M = t['P'], t['D'], t['M']
    W = P * D * M
    calls: dict[int, list] = {}
    for r in range(W):
        topo = PipeModelDataParallelTopology(num_pp=P, num_mp=M, num_dp=D)
        p = topo.get_coord(r).pipe
        layers = d['work'][p]
        # split the summed cost over two factors
        work = {l['name']: {'A': l['c'] - l['c'] // 2, 'G': l['c'] // 2}
                for l in layers}
        with simdist.SoloWorld(r, W) as sw:
            a = GPTNeoXAssignment(
                work, local_rank=r, topology=topo,
                data_parallel_group='DP', model_parallel_group='MP')
            calls[r] = list(sw.ng_calls)
        if a.broadcast_gradients() is not True or \
                a.broadcast_inverses() is not False:
            return f'rank {r}: broadcast flags'
        if list(a.get_layers()) != [l['name'] for l in layers]:
            return f'rank {r}: layers {a.get_layers()}'
        for i, l in enumerate(layers):
            n = l['name']
            for f in ('A', 'G'):
                if a.inv_worker(n, f) != d['inv'][p][i]:
                    return (f'rank {r}: inv_worker({n},{f})='
                            f'{a.inv_worker(n, f)} spec {d["inv"][p][i]}')
            if a.factor_worker(n, 'A') != d['fw'][r][i]:
                return (f'rank {r}: factor_worker({n})='
                        f'{a.factor_worker(n, "A")} spec {d["fw"][r][i]}')
            if a.src_grad_worker(n) != d['src'][r][i]:
                return (f'rank {r}: src_grad_worker({n})='
                        f'{a.src_grad_worker(n)} spec {d["src"][r][i]}')
            if a.is_grad_worker(n) != d['gw'][r][i]:
                return f'rank {r}: is_grad_worker({n})={a.is_grad_worker(n)}'
            if a.grad_receiver_group(n) != 'DP':
                return f'rank {r}: grad_receiver_group is not the data group'
        want_ng = [tuple(sorted(g)) for g in d['ng'][r]]
        if calls[r] != want_ng:
            return f'rank {r}: new_group calls {calls[r]} spec {want_ng}'
        pg = a.pipe_parallel_peer_group
        if D == 1 and pg != 'MP':
            return f'rank {r}: stage peer group should reuse the model group'
        if M == 1 and D > 1 and pg != 'DP':
            return f'rank {r}: stage peer group should reuse the data group'
        if D > 1 and M > 1:
            if not isinstance(pg, simdist.SimGroup) or \
                    set(pg.ranks) != {q for q in range(W)
                                      if q // (D * M) == r // (D * M)}:
                return f'rank {r}: stage peer group {pg}'
    for r in range(1, W):
        if calls[r] != calls[0]:
            return (f'process groups are not created by all ranks in the same '
                    f'order: rank 0 {calls[0]} rank {r} {calls[r]}')
    return None
