"""GPT-NeoX harness: topology stub, sharded layers, assignment replay."""

from __future__ import annotations

import json
import warnings
from typing import Any

import torch

from harness import simdist
from harness.progs import instantiate
from harness.tlc import run_tlc, tla, TLCResult


def gen_assign(maxp: int, maxd: int, maxm: int, maxworld: int, maxl: int,
               costs: list[int], ngmode: str, workers: int = 8,
               emit: bool = True) -> tuple[TLCResult, list[dict[str, Any]]]:
    defs = (f'MaxP == {maxp}\nMaxD == {maxd}\nMaxM == {maxm}\n'
            f'MaxWorld == {maxworld}\nMaxL == {maxl}\n'
            f'Costs == {tla(set(costs))}\nNGMode == "{ngmode}"\n')
    name = 'MC_GptAssign'
    mod = instantiate('GptAssign', name, defs)
    cfg = ('SPECIFICATION Spec\nINVARIANT OneWorkerPerLayer\n'
           'INVARIANT ViewsConsistent\nINVARIANT Balanced\n'
           'INVARIANT SameNewGroupSeq\n')
    if emit:
        cfg += 'INVARIANT Emit\n'
    cfg += 'CHECK_DEADLOCK FALSE\n'
    r = run_tlc(name, cfg_text=cfg, extra_modules={name: mod},
                workers=workers, deadlock=False, timeout=3600)
    out = []
    for line in r.stdout.splitlines():
        if line.startswith('"{'):
            try:
                out.append(json.loads(json.loads(line)))
            except Exception:  # noqa: BLE001
                pass
    return r, out


def lpt_valid(costs: list[int], placed: list[int], peers: list[int]) -> bool:
    """Is `placed` (layer index -> rank) the outcome of SOME least-loaded
    greedy over the layers in descending cost order (ties between equal-cost
    layers and between equally loaded ranks broken in any way)?"""
    seen: set = set()

    def search(rem: frozenset, loads: tuple) -> bool:
        if not rem:
            return True
        if (rem, loads) in seen:
            return False
        seen.add((rem, loads))
        top = max(costs[i] for i in rem)
        for i in rem:
            if costs[i] != top:
                continue
            w = peers.index(placed[i])
            if loads[w] != min(loads):
                continue
            nl = list(loads)
            nl[w] += costs[i]
            if search(rem - {i}, tuple(nl)):
                return True
        return False

    if any(p not in peers for p in placed):
        return False
    return search(frozenset(range(len(costs))), tuple([0] * len(peers)))


def check_assign(d: dict[str, Any]) -> str | None:
    """One real GPTNeoXAssignment per rank; compare every public query.

    A result starting with 'DRIFT' is not a violation: the code chose another
    tie-breaking than spec/GptAssign.tla but every clause of C12 holds
    (agreement within the stage, valid least-loaded greedy, derived views
    computed from the code's own inverse worker)."""
    msg = _check_assign(d, None)
    if msg is None or 'inv_worker' not in msg and 'factor_worker' not in msg \
            and 'src_grad_worker' not in msg and 'is_grad_worker' not in msg:
        return msg
    # tolerant path: take the inverse workers rank 0 of every stage reports,
    # validate them as a greedy outcome, and re-derive every expectation
    from deepspeed.runtime.pipe.topology import PipeModelDataParallelTopology
    from kfac.gpt_neox.assignment import GPTNeoXAssignment
    t = d['topo']
    P, D, M = t['P'], t['D'], t['M']
    W = P * D * M
    inv: list[list[int]] = []
    for p in range(P):
        r = p * D * M
        topo = PipeModelDataParallelTopology(num_pp=P, num_mp=M, num_dp=D)
        layers = d['work'][p]
        work = {l['name']: {'A': l['c'] - l['c'] // 2, 'G': l['c'] // 2}
                for l in layers}
        with simdist.SoloWorld(r, W):
            a = GPTNeoXAssignment(
                work, local_rank=r, topology=topo,
                data_parallel_group='DP', model_parallel_group='MP')
        row = []
        for l in layers:
            ws = {a.inv_worker(l['name'], f) for f in ('A', 'G')}
            if len(ws) != 1:
                return msg
            row.append(next(iter(ws)))
        peers = [q for q in range(W) if q // (D * M) == p]
        if not lpt_valid([l['c'] for l in layers], row, peers):
            return msg + ' (and not a least-loaded greedy outcome under any '\
                         'tie-breaking)'
        inv.append(row)
    pipe = lambda q: q // (D * M)          # noqa: E731
    data = lambda q: (q // M) % D          # noqa: E731
    model = lambda q: q % M                # noqa: E731
    d2 = dict(d)
    d2['inv'] = inv
    d2['fw'], d2['src'], d2['gw'] = [], [], []
    for r in range(W):
        p = pipe(r)
        fw, src, gw = [], [], []
        for i in range(len(d['work'][p])):
            iw = inv[p][i]
            fws = [q for q in range(W) if pipe(q) == p and data(q) == data(r)
                   and model(q) == model(iw)]
            srcs = [q for q in range(W) if pipe(q) == p
                    and model(q) == model(r) and data(q) == data(iw)]
            fw.append(fws[0])
            src.append(srcs[0])
            gw.append(data(iw) == data(r))
        d2['fw'].append(fw)
        d2['src'].append(src)
        d2['gw'].append(gw)
    m2 = _check_assign(d2, None)
    if m2 is not None:
        return m2
    return 'DRIFT tie-breaking differs from GptAssign.Place: ' + msg


def _check_assign(d: dict[str, Any], _unused: Any) -> str | None:
    from deepspeed.runtime.pipe.topology import PipeModelDataParallelTopology
    from kfac.gpt_neox.assignment import GPTNeoXAssignment

    t = d['topo']
    P, D, M = t['P'], t['D'], t['M']
    W = P * D * M
    calls: dict[int, list] = {}
    for r in range(W):
        topo = PipeModelDataParallelTopology(num_pp=P, num_mp=M, num_dp=D)
        p = topo.get_coord(r).pipe
        layers = d['work'][p]
        # split the summed cost over two factors
        work = {l['name']: {'A': l['c'] - l['c'] // 2, 'G': l['c'] // 2}
                for l in layers}
        with simdist.SoloWorld(r, W) as sw:
            a = GPTNeoXAssignment(
                work, local_rank=r, topology=topo,
                data_parallel_group='DP', model_parallel_group='MP')
            calls[r] = list(sw.ng_calls)
        if a.broadcast_gradients() is not True or \
                a.broadcast_inverses() is not False:
            return f'rank {r}: broadcast flags'
        if list(a.get_layers()) != [l['name'] for l in layers]:
            return f'rank {r}: layers {a.get_layers()}'
        for i, l in enumerate(layers):
            n = l['name']
            for f in ('A', 'G'):
                if a.inv_worker(n, f) != d['inv'][p][i]:
                    return (f'rank {r}: inv_worker({n},{f})='
                            f'{a.inv_worker(n, f)} spec {d["inv"][p][i]}')
            if a.factor_worker(n, 'A') != d['fw'][r][i]:
                return (f'rank {r}: factor_worker({n})='
                        f'{a.factor_worker(n, "A")} spec {d["fw"][r][i]}')
            if a.src_grad_worker(n) != d['src'][r][i]:
                return (f'rank {r}: src_grad_worker({n})='
                        f'{a.src_grad_worker(n)} spec {d["src"][r][i]}')
            if a.is_grad_worker(n) != d['gw'][r][i]:
                return f'rank {r}: is_grad_worker({n})={a.is_grad_worker(n)}'
            if a.grad_receiver_group(n) != 'DP':
                return f'rank {r}: grad_receiver_group is not the data group'
        want_ng = [tuple(sorted(g)) for g in d['ng'][r]]
        if calls[r] != want_ng:
            return f'rank {r}: new_group calls {calls[r]} spec {want_ng}'
        pg = a.pipe_parallel_peer_group
        if D == 1 and pg != 'MP':
            return f'rank {r}: stage peer group should reuse the model group'
        if M == 1 and D > 1 and pg != 'DP':
            return f'rank {r}: stage peer group should reuse the data group'
        if D > 1 and M > 1:
            if not isinstance(pg, simdist.SimGroup) or \
                    set(pg.ranks) != {q for q in range(W)
                                      if q // (D * M) == r // (D * M)}:
                return f'rank {r}: stage peer group {pg}'
    for r in range(1, W):
        if calls[r] != calls[0]:
            return (f'process groups are not created by all ranks in the same '
                    f'order: rank 0 {calls[0]} rank {r} {calls[r]}')
    return None
