"""Lock-step replay of spec/KfacRef.tla behaviours into the real code.

TLC generates behaviours (exhaustively up to a depth, or by -simulate); each is
a sequence of [act, arg, x, obs] records where obs is the abstract state the
specification expects after the action.  The real KFACPreconditioner (W = 1,
no simulated world needed) is driven through the same public calls and after
every action its state is projected onto the specification's variables and
compared; symbolic values are interpreted in float64 by harness/terms.py.
"""

from __future__ import annotations

import copy
import io
import json
from typing import Any

import torch

from harness import kaisa
from harness.progs import instantiate
from harness.terms import Interp
from harness.tlc import run_tlc, tla, TLCResult

ALL_PARAMS = ['factor_update_steps', 'inv_update_steps', 'damping',
              'factor_decay', 'kl_clip', 'lr']


def ref_constants(cfg: kaisa.Config, alphabet: list[str], micro: list[int],
                  sched_args: list[int], depth: int) -> str:
    def ispec(v: Any) -> str:
        if isinstance(v, str):
            return f'[kind |-> "fn", v |-> 0, name |-> "{v}"]'
        return f'[kind |-> "const", v |-> {int(v)}, name |-> ""]'

    def fkind(v: Any) -> str:
        if v is None:
            return 'none'
        return 'fn' if isinstance(v, str) else 'const'

    fk = {'damping': fkind(cfg.damping), 'factor_decay': fkind(cfg.decay),
          'kl_clip': fkind(cfg.kl_clip), 'lr': fkind(cfg.lr)}
    sf = {p: cfg.sched.get(p, 'dbl') for p in ALL_PARAMS}
    return (
        f'InHook == {tla(bool(cfg.in_hook))}\nAccum == {cfg.accum}\n'
        f'FSpec == {ispec(cfg.F)}\nISpec == {ispec(cfg.I)}\n'
        f'FloatKind == {tla(fk)}\nSched == {tla(set(cfg.sched))}\n'
        f'SchedFn == {tla(sf)}\nAlphabet == {tla(set(alphabet))}\n'
        f'Micro == {tla(set(micro))}\nSchedArgs == {tla(set(sched_args))}\n'
        f'MaxDepth == {depth}\n'
    )


PROPS = ['StepCountsByOne', 'FactorsChangeOnlyOnUpdateSteps',
         'InvRefreshOnlyOnMultiples', 'RefreshOnStepZero', 'EvalFrame',
         'QueryFrame', 'HPAtCurrentStep', 'RoundTrip', 'MiniCleared']


def check_spec(cfg: kaisa.Config, alphabet: list[str], micro: list[int],
               sched_args: list[int], depth: int, workers: int = 4,
               timeout: int = 1200) -> TLCResult:
    """Exhaustive TLC run of KfacRef (history hidden by VIEW)."""
    name = 'MC_KfacRef'
    mod = instantiate('KfacRef', name,
                      ref_constants(cfg, alphabet, micro, sched_args, depth))
    cfgt = 'SPECIFICATION Spec\nVIEW view\nINVARIANT TypeOK\n' + ''.join(
        f'PROPERTY {p}\n' for p in PROPS) + 'CHECK_DEADLOCK FALSE\n'
    return run_tlc(name, cfg_text=cfgt, extra_modules={name: mod},
                   workers=workers, timeout=timeout, deadlock=False)


def gen_behaviours(cfg: kaisa.Config, alphabet: list[str], micro: list[int],
                   sched_args: list[int], depth: int, num: int, seed: int,
                   timeout: int = 600, exhaustive: bool = False,
                   ) -> tuple[list[list[dict]], TLCResult]:
    """Behaviours of KfacRef printed as JSON when they end.

    exhaustive: breadth-first search with the history variable visible, so
    every maximal path up to the depth bound is a distinct state and is
    printed once; otherwise TLC -simulate with `num` random behaviours.
    """
    name = 'MC_KfacRefGen'
    mod = instantiate('KfacRef', name,
                      ref_constants(cfg, alphabet, micro, sched_args, depth))
    cfgt = ('SPECIFICATION Spec\nCONSTRAINT EmitDone\n'
            'CHECK_DEADLOCK FALSE\n')
    if exhaustive:
        r = run_tlc(name, cfg_text=cfgt, extra_modules={name: mod},
                    workers=4, timeout=timeout, deadlock=False)
    else:
        r = run_tlc(name, cfg_text=cfgt, extra_modules={name: mod},
                    workers=1, simulate=f'num={num}', depth=depth + 2,
                    seed=seed, timeout=timeout, deadlock=False)
    hs = []
    for line in r.stdout.splitlines():
        if line.startswith('"['):
            try:
                hs.append(json.loads(json.loads(line)))
            except Exception:  # noqa: BLE001
                continue
    return hs, r


# ---------------------------------------------------------------------------
class Capture:
    """Driver-owned hooks capturing layer inputs and output gradients."""

    def __init__(self, layers: dict[str, torch.nn.Module],
                 interp: Interp) -> None:
        self.layers = layers
        self.interp = interp
        self.pid = 0
        self.handles = []
        for name, mod in layers.items():
            self.handles.append(mod.register_forward_pre_hook(
                self._fwd(name)))
            self.handles.append(mod.register_full_backward_hook(
                self._bwd(name)))

    def _fwd(self, name: str):
        def hook(mod, inp):
            self.interp.captures.setdefault(self.pid, {}).setdefault(
                name, {'x': [], 'g': []})['x'].append(
                    inp[0].detach().clone())
        return hook

    def _bwd(self, name: str):
        def hook(mod, gin, gout):
            g = gout[0] if isinstance(gout, tuple) else gout
            self.interp.captures.setdefault(self.pid, {}).setdefault(
                name, {'x': [], 'g': []})['g'].append(g.detach().clone())
        return hook

    def remove(self) -> None:
        for h in self.handles:
            h.remove()


class LinalgLog:
    """Counts torch.linalg.{eigh,eig,inv} calls (refresh observation)."""

    def __init__(self) -> None:
        self.calls: list[tuple[str, int]] = []

    def __enter__(self) -> 'LinalgLog':
        self.orig = {n: getattr(torch.linalg, n) for n in ('eigh', 'eig', 'inv')}

        def wrap(n):
            def f(x, *a, **k):
                self.calls.append((n, x.shape[-1]))
                return self.orig[n](x, *a, **k)
            return f
        for n in self.orig:
            setattr(torch.linalg, n, wrap(n))
        return self

    def __exit__(self, *a: Any) -> None:
        for n, f in self.orig.items():
            setattr(torch.linalg, n, f)


def rel(a: torch.Tensor, b: torch.Tensor) -> float:
    a, b = a.double(), b.double()
    return ((a - b).norm() / max(b.norm().item(), 1e-30)).item()


TOL_FACTOR = 2e-5
TOL_GRAD = 2e-4


def replay(cfg: kaisa.Config, hist: list[dict[str, Any]], seed: int,
           ) -> dict[str, Any]:
    """Drive the real preconditioner along `hist`; return mismatches."""
    torch.set_num_threads(1)
    mism: list[dict[str, Any]] = []
    stats = {'max_factor_err': 0.0, 'max_grad_err': 0.0, 'steps': 0,
             'raises': 0, 'max_cond': 0.0, 'nu_active': 0, 'loads': 0,
             'refresh_checks': 0, 'max_resid': 0.0}
    dtype = kaisa.DT[cfg.param_dtype]
    rr = kaisa.RankRun(cfg, seed, 0)
    layers = {n: l.module.module for n, l in rr.registered()}
    interp = Interp(cfg, layers)
    cap = Capture(layers, interp)

    def add(cat: str, i: int, msg: str) -> None:
        mism.append({'cat': cat, 'at': i, 'act': hist[i]['act'], 'msg': msg})

    def rebuild_hooks() -> None:
        nonlocal cap, layers
        cap.remove()
        pid = cap.pid
        layers = {n: l.module.module for n, l in rr.registered()}
        interp.layers = layers
        cap = Capture(layers, interp)
        cap.pid = pid

    for i, rec in enumerate(hist):
        act, arg, x, obs = rec['act'], rec['arg'], rec['x'], rec['obs']
        raised = None
        pre_grads = None
        ll = LinalgLog()
        try:
            with ll:
                if act == 'train':
                    rr.model.train(True)
                    rr.model.zero_grad(set_to_none=True)
                    for mb in range(arg):
                        cap.pid += 1
                        xb, yb = kaisa.make_batch(cfg, seed, 0, rr.it, mb, dtype)
                        out = rr.model(xb)
                        kaisa.loss_fn(out, yb, cfg.batch,
                                      cfg.grad_scaler).backward()
                    if cfg.grad_scaler is not None:
                        with torch.no_grad():
                            for p in rr.model.parameters():
                                if p.grad is not None:
                                    p.grad.div_(cfg.grad_scaler)
                    rr.it += 1
                elif act == 'fwdonly':
                    rr.model.train(True)
                    rr.model.zero_grad(set_to_none=True)
                    cap.pid += 1
                    xb, yb = kaisa.make_batch(cfg, seed, 0, rr.it, 0, dtype)
                    rr.model(xb)
                    rr.it += 1
                elif act == 'eval':
                    rr.model.train(False)
                    rr.model.zero_grad(set_to_none=True)
                    cap.pid += 1
                    xb, yb = kaisa.make_batch(cfg, seed, 0, rr.it, 0, dtype)
                    before = state_digest(rr)
                    kaisa.loss_fn(rr.model(xb), yb, cfg.batch, None).backward()
                    if state_digest(rr) != before:
                        add('evalframe', i, 'K-FAC state changed in eval mode')
                    rr.it += 1
                elif act == 'step':
                    pre_grads = rr.grads()
                    rr.pre.step()
                elif act == 'reset':
                    rr.pre.reset_batch()
                elif act == 'sched':
                    rr.sched.step(None if arg == -1 else arg)
                elif act == 'save':
                    sd = rr.pre.state_dict(include_factors=bool(arg))
                    buf = io.BytesIO()
                    torch.save(sd, buf)
                    buf.seek(0)
                    rr.ckpt = torch.load(buf, weights_only=False)
                elif act == 'load':
                    rr.apply(['load', bool(arg)])
                    rebuild_hooks()
                    stats['loads'] += 1
                elif act == 'mem':
                    rr.pre.memory_usage()
                else:
                    raise ValueError(act)
        except Exception as e:  # noqa: BLE001
            raised = e
        exp_raise = bool(x.get('raises'))
        if exp_raise:
            stats['raises'] += 1
            if raised is None:
                add('raise', i, 'spec predicts the call raises; it returned')
            elif not isinstance(raised, (RuntimeError, AssertionError)):
                add('raise', i, f'unexpected exception type {raised!r}')
            break
        if raised is not None:
            add('raise', i, f'unexpected exception: {type(raised).__name__}: '
                            f'{str(raised)[:200]}')
            break
        # ---- compare projected state -------------------------------------
        pre = rr.pre
        if pre.steps != obs['steps']:
            add('steps', i, f'steps={pre.steps} spec {obs["steps"]}')
        if pre.factor_update_steps != obs['F']:
            add('hp', i, f'factor_update_steps={pre.factor_update_steps} '
                         f'spec {obs["F"]}')
        if pre.inv_update_steps != obs['I']:
            add('hp', i, f'inv_update_steps={pre.inv_update_steps} '
                         f'spec {obs["I"]}')
        for p, getter in (('damping', lambda: pre.damping),
                          ('factor_decay', lambda: pre.factor_decay),
                          ('kl_clip', lambda: pre.kl_clip),
                          ('lr', lambda: pre.lr)):
            want = interp.hpval(obs['hp'][p])
            got = getter()
            if want is None or got is None:
                if want is not got:
                    add('hp', i, f'{p}={got} spec {want}')
            elif abs(got - want) > 1e-12 * max(1.0, abs(want)):
                add('hp', i, f'{p}={got} spec {want}')
        sd = pre.state_dict(include_factors=True)['layers']
        for name in layers:
            for kind, key in (('A', 'aFac'), ('G', 'gFac')):
                want_t = interp.factor(obs[key], name, kind)
                got_t = sd[name][kind]
                if want_t is None or got_t is None:
                    if not (want_t is None and got_t is None):
                        add('factor', i, f'{name}.{kind}: presence differs '
                            f'(code {"set" if got_t is not None else "None"})')
                    continue
                want_dt = kaisa.DT[cfg.factor_dtype] or dtype
                if got_t.dtype != want_dt:
                    add('factor', i, f'{name}.{kind}: dtype {got_t.dtype}')
                e = rel(got_t, want_t)
                stats['max_factor_err'] = max(stats['max_factor_err'], e)
                tol = TOL_FACTOR * factor_tol_scale(got_t.dtype)
                if e > tol:
                    add('factor', i, f'{name}.{kind}: rel err {e:.3e} > {tol:.1e}')
                if not torch.equal(got_t, got_t.t()):
                    if rel(got_t, got_t.t()) > 1e-6 * factor_tol_scale(got_t.dtype):
                        add('factor', i, f'{name}.{kind}: not symmetric')
        if act == 'step':
            stats['steps'] += 1
            want, info = interp.grads(x['grad'], pre_grads)
            stats['max_cond'] = max(stats['max_cond'], info['cond'])
            if info['nu'] < 1.0:
                stats['nu_active'] += 1
            got = rr.grads()
            tol = TOL_GRAD * grad_tol_scale(cfg) * max(1.0, info['cond'] / 50)
            for k, wv in want.items():
                e = rel(got[k], wv)
                stats['max_grad_err'] = max(stats['max_grad_err'], e / tol)
                if e > tol:
                    add('grad', i, f'{k}: rel err {e:.3e} > {tol:.1e} '
                                   f'(nu={info["nu"]:.4g})')
                if got[k].dtype != pre_grads[k].dtype or \
                        got[k].shape != pre_grads[k].shape:
                    add('grad', i, f'{k}: dtype/shape changed')
            n_dec = len(ll.calls)
            stats['refresh_checks'] += 1
            if x['refresh'] and n_dec != 2 * len(layers):
                add('refresh', i, f'refresh step but {n_dec} decompositions '
                                  f'for {len(layers)} layers')
            if not x['refresh'] and n_dec != 0:
                add('refresh', i, f'{n_dec} decompositions on a non-refresh step')
            rr.sgd()
        elif act == 'load':
            has = all(bool(kaisa.second_order_held(l))
                      for _, l in rr.registered())
            none = all(not kaisa.second_order_held(l)
                       for _, l in rr.registered())
            if x['hasInv'] and not has:
                add('load', i, 'second-order data missing after load')
            if not x['hasInv'] and not none:
                add('load', i, 'second-order data present after load without '
                               'recomputation')
        elif len(ll.calls) != 0:
            add('refresh', i, f'decompositions during {act}')
    cap.remove()
    return {'mismatches': mism, 'stats': stats}


def factor_tol_scale(dt: torch.dtype) -> float:
    return {torch.float64: 1.0, torch.float32: 1.0, torch.bfloat16: 2000.0,
            torch.float16: 300.0}[dt]


def grad_tol_scale(cfg: kaisa.Config) -> float:
    s = 1.0
    for d in (cfg.param_dtype, cfg.factor_dtype, cfg.inv_dtype):
        if d in ('bfloat16',):
            s = max(s, 400.0)
        if d in ('float16',):
            s = max(s, 50.0)
    return s


def state_digest(rr: kaisa.RankRun) -> str:
    """Digest of all K-FAC state (for the eval-mode frame condition)."""
    import hashlib

    hsh = hashlib.sha1()
    pre = rr.pre
    hsh.update(repr((pre.steps, dict(pre._mini_steps))).encode())
    for name, layer in rr.registered():
        for k, v in sorted(vars(layer).items()):
            if isinstance(v, torch.Tensor):
                hsh.update(k.encode())
                hsh.update(v.detach().cpu().double().numpy().tobytes())
            elif isinstance(v, (int, float, bool, type(None))):
                hsh.update(f'{k}={v}'.encode())
    return hsh.hexdigest()
