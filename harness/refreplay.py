"""Lock-step replay of spec/KfacRef.tla behaviours into the real code.

TLC generates behaviours (exhaustively up to a depth, or by -simulate); each is
a sequence of [act, arg, x, obs] records where obs is the abstract state the
specification expects after the action.  The real KFACPreconditioner (W = 1,
no simulated world needed) is driven through the same public calls and after
every action its state is projected onto the specification's variables and
compared; symbolic values are interpreted in float64 by harness/terms.py.
"""

from __future__ import annotations

import copy
import io
import json
from typing import Any

import torch

from harness import kaisa
from harness.progs import instantiate
from harness.terms import Interp
from harness.tlc import run_tlc, tla, TLCResult

ALL_PARAMS = ['factor_update_steps', 'inv_update_steps', 'damping',
              'factor_decay', 'kl_clip', 'lr']


def ref_constants(cfg: kaisa.Config, alphabet: list[str], micro: list[int],
                  sched_args: list[int], depth: int,
                  strict: bool = False, save_args: tuple = (True, False),
                  load_args: tuple = (True, False),
                  int_tables: dict[str, list[int]] | None = None,
                  script: list | None = None) -> str:
    def ispec(v: Any) -> str:
        if isinstance(v, str):
            return f'[kind |-> "fn", v |-> 0, name |-> "{v}"]'
        return f'[kind |-> "const", v |-> {int(v)}, name |-> ""]'

    def fkind(v: Any) -> str:
        if v is None:
            return 'none'
        return 'fn' if isinstance(v, str) else 'const'

    fk = {'damping': fkind(cfg.damping), 'factor_decay': fkind(cfg.decay),
          'kl_clip': fkind(cfg.kl_clip), 'lr': fkind(cfg.lr)}
    sf = {p: cfg.sched.get(p, 'dbl') for p in ALL_PARAMS}
    return (
        f'InHook == {tla(bool(cfg.in_hook))}\nAccum == {cfg.accum}\n'
        f'FSpec == {ispec(cfg.F)}\nISpec == {ispec(cfg.I)}\n'
        f'FloatKind == {tla(fk)}\nSched == {tla(set(cfg.sched))}\n'
        f'SchedFn == {tla(sf)}\nAlphabet == {tla(set(alphabet))}\n'
        f'Micro == {tla(set(micro))}\nSchedArgs == {tla(set(sched_args))}\n'
        f'MaxDepth == {depth}\nStrict == {tla(bool(strict))}\n'
        f'SaveArgs == {tla(set(save_args))}\nLoadArgs == {tla(set(load_args))}\n'
        + ('IntTable == ' + (tla(int_tables) if int_tables else '<<>>') + '\n')
        + f'Steps0 == {int(getattr(cfg, "steps0", 0))}\n'
        + 'Script == ' + ('<<' + ', '.join(
            f'[act |-> "{a}", arg |-> {tla(b)}]' for a, b in script) + '>>'
            if script else '<<>>') + '\n'
    )


PROPS = ['StepCountsByOne', 'FactorsChangeOnlyOnUpdateSteps',
         'InvRefreshOnlyOnMultiples', 'RefreshOnStepZero', 'EvalFrame',
         'QueryFrame', 'HPAtCurrentStep', 'RoundTrip', 'MiniCleared']


def check_spec(cfg: kaisa.Config, alphabet: list[str], micro: list[int],
               sched_args: list[int], depth: int, workers: int = 4,
               timeout: int = 1200, strict: bool = False,
               **ckw: Any) -> TLCResult:
    """Exhaustive TLC run of KfacRef (history hidden by VIEW)."""
    name = 'MC_KfacRef'
    mod = instantiate('KfacRef', name,
                      ref_constants(cfg, alphabet, micro, sched_args, depth,
                                    strict, **ckw))
    cfgt = 'SPECIFICATION Spec\nVIEW view\nINVARIANT TypeOK\n' + ''.join(
        f'PROPERTY {p}\n' for p in PROPS) + 'CHECK_DEADLOCK FALSE\n'
    return run_tlc(name, cfg_text=cfgt, extra_modules={name: mod},
                   workers=workers, timeout=timeout, deadlock=False)


def gen_behaviours(cfg: kaisa.Config, alphabet: list[str], micro: list[int],
                   sched_args: list[int], depth: int, num: int, seed: int,
                   timeout: int = 600, exhaustive: bool = False,
                   strict: bool = False, **ckw: Any,
                   ) -> tuple[list[list[dict]], TLCResult]:
    """Behaviours of KfacRef printed as JSON when they end.

    exhaustive: breadth-first search with the history variable visible, so
    every maximal path up to the depth bound is a distinct state and is
    printed once; otherwise TLC -simulate with `num` random behaviours.
    """
    name = 'MC_KfacRefGen'
    mod = instantiate('KfacRef', name,
                      ref_constants(cfg, alphabet, micro, sched_args, depth,
                                    strict, **ckw))
    cfgt = ('SPECIFICATION Spec\nCONSTRAINT EmitDone\n'
            'CHECK_DEADLOCK FALSE\n')
    if exhaustive:
        r = run_tlc(name, cfg_text=cfgt, extra_modules={name: mod},
                    workers=4, timeout=timeout, deadlock=False)
    else:
        r = run_tlc(name, cfg_text=cfgt, extra_modules={name: mod},
                    workers=1, simulate=f'num={num}', depth=depth + 2,
                    seed=seed, timeout=timeout, deadlock=False)
    hs = []
    for line in r.stdout.splitlines():
        if line.startswith('"['):
            try:
                hs.append(json.loads(json.loads(line)))
            except Exception:  # noqa: BLE001
                continue
    return hs, r


# ---------------------------------------------------------------------------
class Capture:
    """Driver-owned hooks capturing layer inputs and output gradients."""

    def __init__(self, layers: dict[str, torch.nn.Module],
                 interp: Interp) -> None:
        self.layers = layers
        self.interp = interp
        self.pid = 0
        self.handles = []
        for name, mod in layers.items():
            self.handles.append(mod.register_forward_pre_hook(
                self._fwd(name)))
            self.handles.append(mod.register_full_backward_hook(
                self._bwd(name)))

    def _fwd(self, name: str):
        def hook(mod, inp):
            self.interp.captures.setdefault(self.pid, {}).setdefault(
                name, {'x': [], 'g': []})['x'].append(
                    inp[0].detach().clone())
        return hook

    def _bwd(self, name: str):
        def hook(mod, gin, gout):
            g = gout[0] if isinstance(gout, tuple) else gout
            self.interp.captures.setdefault(self.pid, {}).setdefault(
                name, {'x': [], 'g': []})['g'].append(g.detach().clone())
        return hook

    def remove(self) -> None:
        for h in self.handles:
            h.remove()


_LINALG_TLS = __import__('threading').local()
_LINALG_PATCHED = False


def _patch_linalg() -> None:
    global _LINALG_PATCHED
    if _LINALG_PATCHED:
        return
    _LINALG_PATCHED = True
    for n in ('eigh', 'eig', 'inv'):
        orig = getattr(torch.linalg, n)

        def make(n, orig):
            def f(x, *a, **k):
                log = getattr(_LINALG_TLS, 'log', None)
                if log is not None:
                    log.append((n, x.shape[-1]))
                return orig(x, *a, **k)
            return f
        setattr(torch.linalg, n, make(n, orig))


class LinalgLog:
    """Per-thread log of torch.linalg.{eigh,eig,inv} calls."""

    def __init__(self) -> None:
        self.calls: list[tuple[str, int]] = []

    def __enter__(self) -> 'LinalgLog':
        _patch_linalg()
        _LINALG_TLS.log = self.calls
        return self

    def __exit__(self, *a: Any) -> None:
        _LINALG_TLS.log = None


def rel(a: torch.Tensor, b: torch.Tensor) -> float:
    if a.shape != b.shape:
        return float('inf')          # a shape mismatch is a mismatch
    a, b = a.double(), b.double()
    if not torch.isfinite(a).all():
        return float('inf')
    return ((a - b).norm() / max(b.norm().item(), 1e-30)).item()


TOL_FACTOR = 2e-5
TOL_GRAD = 2e-4


PENDING = 'pending'


def peek(layer: Any, attr: str) -> Any:
    """Non-invasive read of a layer attribute that may hold a future: never
    waits (waiting on a bucketed allreduce before the flush would hang and
    would change the schedule of the code under test)."""
    d = vars(layer)
    if ('_' + attr) in d or attr in d:
        v = d.get('_' + attr, d.get(attr))
    else:
        # the private layout is not the pinned one (a refactoring): use the
        # public property, without ever blocking or logging a wait
        from harness import simdist
        try:
            with simdist.nonblocking():
                v = getattr(layer, attr, None)
        except simdist.WouldBlock:
            return PENDING
    if isinstance(v, (torch._C.Future, torch.futures.Future)):
        if not v.done():
            return PENDING
        v = v.value()
    if isinstance(v, torch.Tensor):
        return v.detach().clone()
    return None


def execute(cfg: kaisa.Config, hist: list[dict[str, Any]], seed: int,
            rank: int, interp: Interp,
            recs: list[dict[str, Any]] | None = None) -> list[dict[str, Any]]:
    """Phase 1: drive the real preconditioner of one rank along `hist` and
    record the projected state after every action (no comparison here)."""
    from harness import simdist

    dtype = kaisa.DT[cfg.param_dtype]
    simdist.set_ctx({'op': 'construct', 'n': -1})
    rr = kaisa.RankRun(cfg, seed, rank)
    layers = {n: l.module.module for n, l in rr.registered()}
    if rank == 0:
        interp.layers = layers
    cap = Capture(layers, interp)
    if recs is None:
        recs = []
    for i, rec in enumerate(hist):
        act, arg = rec['act'], rec['arg']
        simdist.set_ctx({'op': act, 'n': i})
        out: dict[str, Any] = {'raised': None}
        ll = LinalgLog()
        try:
            with ll:
                if act == 'train':
                    rr.model.train(True)
                    rr.model.zero_grad(set_to_none=not cfg.keep_grads)
                    for mb in range(arg):
                        cap.pid += 1
                        xb, yb = kaisa.make_batch(cfg, seed, rank, rr.it, mb,
                                                  dtype)
                        sc = kaisa.loss_scale(cfg, rr.it, mb)
                        if sc is not None:
                            rr.pre._verif_scale_cell['v'] = sc
                            interp.scales[cap.pid] = sc
                        o = rr.model(xb)
                        kaisa.scaled_backward(
                            rr.model, rr.pre,
                            kaisa.loss_fn(o, yb, o.shape[0] // cfg.union,
                                          None), sc)
                    with torch.no_grad():
                        for p in rr.model.parameters():
                            if p.grad is None:
                                continue
                            if cfg.union > 1:
                                p.grad.div_(cfg.union)
                    if cfg.W > 1:
                        with simdist.owner('driver'):
                            for p in rr.model.parameters():
                                if p.grad is not None:
                                    torch.distributed.all_reduce(p.grad)
                                    p.grad.div_(cfg.W)
                    rr.it += 1
                elif act == 'fwdonly':
                    rr.model.train(True)
                    rr.model.zero_grad(set_to_none=not cfg.keep_grads)
                    cap.pid += 1
                    xb, yb = kaisa.make_batch(cfg, seed, rank, rr.it, 0, dtype)
                    rr.model(xb)
                    rr.it += 1
                elif act == 'eval':
                    rr.model.train(False)
                    rr.model.zero_grad(set_to_none=not cfg.keep_grads)
                    cap.pid += 1
                    xb, yb = kaisa.make_batch(cfg, seed, rank, rr.it, 0, dtype)
                    before = state_digest(rr)
                    kaisa.loss_fn(rr.model(xb), yb, xb.shape[0] // cfg.union, None).backward()
                    out['evalframe_ok'] = state_digest(rr) == before
                    if cfg.W > 1:
                        with simdist.owner('driver'):
                            for p in rr.model.parameters():
                                if p.grad is not None:
                                    torch.distributed.all_reduce(p.grad)
                                    p.grad.div_(cfg.W)
                    rr.it += 1
                elif act == 'step':
                    out['pre_grads'] = rr.grads()
                    a = rr.pre._assignment
                    me = rank
                    out['expected_dec'] = sum(
                        int(a.inv_worker(n, f) == me)
                        for n in a.get_layers() for f in a.get_factors(n))
                    rr.pre.step()
                elif act == 'reset':
                    rr.pre.reset_batch()
                elif act == 'sched':
                    rr.sched.step(None if arg == -1 else arg)
                elif act == 'save':
                    sd = rr.pre.state_dict(include_factors=bool(arg))
                    buf = io.BytesIO()
                    torch.save(sd, buf)
                    buf.seek(0)
                    rr.ckpt = torch.load(buf, weights_only=False)
                    rr.ckpt_live = sd
                    rr.saved_exact = {
                        'steps': rr.pre.steps,
                        'hp': {'damping': rr.pre._damping,
                               'factor_decay': rr.pre._factor_decay,
                               'kl_clip': rr.pre._kl_clip, 'lr': rr.pre._lr,
                               'F': rr.pre._factor_update_steps,
                               'I': rr.pre._inv_update_steps},
                        'factors': {n: {'A': peek(l, 'a_factor'),
                                        'G': peek(l, 'g_factor')}
                                    for n, l in rr.registered()},
                        'inc': bool(arg)}
                elif act == 'load':
                    rr.apply(['load', bool(arg)], set_ctx=False)
                    se = rr.saved_exact
                    bad = []
                    if rr.pre.steps != se['steps']:
                        bad.append('steps')
                    for hk, attr in (('damping', '_damping'),
                                     ('factor_decay', '_factor_decay'),
                                     ('kl_clip', '_kl_clip'), ('lr', '_lr'),
                                     ('F', '_factor_update_steps'),
                                     ('I', '_inv_update_steps')):
                        a0, a1 = se['hp'][hk], getattr(rr.pre, attr)
                        if not callable(a0) and a0 != a1:
                            bad.append(hk)
                    if se['inc']:
                        for n, l in rr.registered():
                            for kk, at in (('A', 'a_factor'), ('G', 'g_factor')):
                                t0 = se['factors'][n][kk]
                                t1 = peek(l, at)
                                if isinstance(t0, str):
                                    continue
                                if (t0 is None) != (t1 is None) or (
                                        t0 is not None and not (
                                            t0.dtype == t1.dtype
                                            and torch.equal(t0, t1))):
                                    bad.append(f'{n}.{kk}')
                    out['exact_restore_bad'] = bad
                    cap.remove()
                    pid = cap.pid
                    layers = {n: l.module.module for n, l in rr.registered()}
                    if rank == 0:
                        interp.layers = layers
                    cap = Capture(layers, interp)
                    cap.pid = pid
                    a = rr.pre._assignment
                    out['expected_dec'] = sum(
                        int(a.inv_worker(n, f) == rank)
                        for n in a.get_layers() for f in a.get_factors(n))
                elif act == 'rollback':
                    import copy as _copy
                    rr.pre.load_state_dict(_copy.deepcopy(rr.ckpt),
                                           compute_inverses=bool(arg))
                    a = rr.pre._assignment
                    out['expected_dec'] = sum(
                        int(a.inv_worker(n, f) == rank)
                        for n in a.get_layers() for f in a.get_factors(n))
                elif act == 'mem':
                    out['mem'] = dict(rr.pre.memory_usage())
                    out['mem_held'] = sum(
                        max(b, 0) for _, l in rr.registered()
                        for b in kaisa.layer_holdings(l).values())
                else:
                    raise ValueError(act)
        except simdist.SimStall:
            raise
        except Exception as e:  # noqa: BLE001
            out['raised'] = e
        out['lin'] = list(ll.calls)
        if out['raised'] is None:
            pre = rr.pre
            out['steps'] = pre.steps
            out['F'] = pre.factor_update_steps
            out['I'] = pre.inv_update_steps
            out['hp'] = {'damping': pre.damping,
                         'factor_decay': pre.factor_decay,
                         'kl_clip': pre.kl_clip, 'lr': pre.lr}
            out['factors'] = {
                n: {'A': peek(l, 'a_factor'), 'G': peek(l, 'g_factor')}
                for n, l in rr.registered()}
            out['hold'] = {n: kaisa.second_order_held(l)
                           for n, l in rr.registered()}
            out['gw'] = {n: rr.pre._assignment.is_grad_worker(n)
                         for n, _ in rr.registered()}
            if i == 0 or act == 'load':
                a = rr.pre._assignment
                out['assign'] = {
                    n: {'invA': a.inv_worker(n, 'A'),
                        'invG': a.inv_worker(n, 'G'),
                        'gw': a.is_grad_worker(n),
                        'a': l.module.a_factor_shape[0],
                        'g': l.module.g_factor_shape[0]}
                    for n, l in rr.registered()}
            if act == 'step':
                out['grads'] = rr.grads()
                rr.sgd()
        recs.append(out)
        if out['raised'] is not None:
            if cfg.W > 1:
                raise out['raised']
            break
    cap.remove()
    return recs


def compare(cfg: kaisa.Config, hist: list[dict[str, Any]],
            recs: list[dict[str, Any]], interp: Interp, rank: int = 0,
            ) -> dict[str, Any]:
    """Phase 2: compare the recorded projections with the spec's expectation."""
    mism: list[dict[str, Any]] = []
    stats = {'max_factor_err': 0.0, 'max_grad_err': 0.0, 'steps': 0,
             'raises': 0, 'max_cond': 0.0, 'nu_active': 0, 'loads': 0,
             'refresh_checks': 0, 'max_resid': 0.0}
    dtype = kaisa.DT[cfg.param_dtype]
    layers = interp.layers

    def add(cat: str, i: int, msg: str) -> None:
        mism.append({'cat': cat, 'at': i, 'act': hist[i]['act'], 'msg': msg,
                     'rank': rank})

    for i, (rec, out) in enumerate(zip(hist, recs)):
        act, x, obs = rec['act'], rec['x'], rec['obs']
        raised = out['raised']
        exp_raise = bool(x.get('raises'))
        if exp_raise:
            # outside valid use (e.g. a step before any factor exists): the
            # properties do not say what must happen, so returning instead of
            # raising is not a violation; comparison stops here
            stats['raises'] += 1
            if raised is None:
                stats['raise_predicted_but_returned'] = \
                    stats.get('raise_predicted_but_returned', 0) + 1
            break
        if raised is not None:
            add('raise', i, f'unexpected exception: {type(raised).__name__}: '
                            f'{str(raised)[:200]}')
            break
        if act == 'eval' and not out.get('evalframe_ok', True):
            add('evalframe', i, 'K-FAC state changed in eval mode')
        if out['steps'] != obs['steps']:
            add('steps', i, f'steps={out["steps"]} spec {obs["steps"]}')
        if out['F'] != obs['F']:
            add('hp', i, f'factor_update_steps={out["F"]} spec {obs["F"]}')
        if out['I'] != obs['I']:
            add('hp', i, f'inv_update_steps={out["I"]} spec {obs["I"]}')
        for p in ('damping', 'factor_decay', 'kl_clip', 'lr'):
            want = interp.hpval(obs['hp'][p])
            got = out['hp'][p]
            if want is None or got is None:
                if want is not got:
                    add('hp', i, f'{p}={got} spec {want}')
            elif abs(got - want) > 1e-12 * max(1.0, abs(want)):
                add('hp', i, f'{p}={got} spec {want}')
        # C04 speaks about the factors AFTER A STEP: in a distributed run the
        # state between the hooks and the step (reductions possibly still to
        # come) is an implementation choice and is not compared
        factor_ops = ('step', 'load', 'save', 'mem')
        for name in layers:
            if cfg.W > 1 and act not in factor_ops:
                break
            for kind, key in (('A', 'aFac'), ('G', 'gFac')):
                want_t = interp.factor(obs[key], name, kind)
                got_t = out['factors'][name][kind]
                if isinstance(got_t, str):      # pending future: not readable
                    stats['pending_factor_reads'] = \
                        stats.get('pending_factor_reads', 0) + 1
                    continue
                if want_t is None or got_t is None:
                    if not (want_t is None and got_t is None):
                        add('factor', i, f'{name}.{kind}: presence differs '
                            f'(code {"set" if got_t is not None else "None"})')
                    continue
                want_dt = kaisa.DT[cfg.factor_dtype] or dtype
                if got_t.dtype != want_dt:
                    add('factor', i, f'{name}.{kind}: dtype {got_t.dtype}')
                if not torch.isfinite(got_t).all():
                    add('factor', i, f'{name}.{kind}: not finite')
                    continue
                e = rel(got_t, want_t)
                stats['max_factor_err'] = max(stats['max_factor_err'], e)
                tol = TOL_FACTOR * factor_tol_scale(got_t.dtype)
                if e > tol:
                    add('factor', i,
                        f'{name}.{kind}: rel err {e:.3e} > {tol:.1e}')
                if rel(got_t, got_t.t()) > 1e-6 * factor_tol_scale(got_t.dtype):
                    add('factor', i, f'{name}.{kind}: not symmetric')
                ev = torch.linalg.eigvalsh(
                    (got_t.double() + got_t.double().t()) / 2)
                if ev.min().item() < -1e-5 * factor_tol_scale(got_t.dtype) * \
                        max(1.0, ev.max().item()):
                    add('factor', i, f'{name}.{kind}: not PSD '
                                     f'(min eig {ev.min().item():.3e})')
        if act == 'step':
            stats['steps'] += 1
            want, info = interp.grads(x['grad'], out['pre_grads'])
            stats['max_cond'] = max(stats['max_cond'], info['cond'])
            if info['nu'] < 1.0:
                stats['nu_active'] += 1
            got = out['grads']
            tol = TOL_GRAD * grad_tol_scale(cfg) * max(1.0, info['cond'] / 50)
            for k, wv in want.items():
                if not torch.isfinite(got[k]).all():
                    add('grad', i, f'{k}: not finite')
                    continue
                e = rel(got[k], wv)
                stats['max_grad_err'] = max(stats['max_grad_err'], e / tol)
                if e > tol:
                    add('grad', i, f'{k}: rel err {e:.3e} > {tol:.1e} '
                                   f'(nu={info["nu"]:.4g})')
                pg = out['pre_grads'][k]
                if got[k].dtype != pg.dtype or got[k].shape != pg.shape:
                    add('grad', i, f'{k}: dtype/shape changed')
                if not got[k].is_contiguous():
                    add('grad', i, f'{k}: not contiguous')
            # the property statement itself: the implementation's V = grad/nu
            # must solve the defining system built from the reference factors
            for name, mod in layers.items():
                a_, g_ = info['AG'][name]
                if not all(torch.isfinite(got[k]).all() for k in got):
                    break
                gotv = interp.combined(mod, got, name) / info['nu']
                res = interp.residual(a_, g_, gotv, info['D'][name],
                                      interp.method(), *info['lams'])
                stats['max_resid'] = max(stats['max_resid'], res / tol)
                if res > tol * max(1.0, info['cond'] / 10):
                    add('grad', i, f'{name}: residual of the defining system '
                                   f'{res:.3e} > {tol:.1e}')
            n_dec = len(out['lin'])
            stats['refresh_checks'] += 1
            # WHEN second-order data is recomputed is the property (C05); WHO
            # computes it is not: on a refresh step every factor must be
            # decomposed somewhere (checked over all ranks in replay()), on
            # other steps nobody decomposes anything
            if x['refresh'] and cfg.W == 1 and n_dec < out['expected_dec']:
                add('refresh', i, f'refresh step but only {n_dec} '
                                  f'decompositions for {out["expected_dec"]} factors')
            if not x['refresh'] and n_dec != 0:
                add('refresh', i,
                    f'{n_dec} decompositions on a non-refresh step')
        elif act == 'load':
            stats['loads'] += 1
            if out.get('exact_restore_bad'):
                add('load', i, 'not restored exactly: '
                               f'{out["exact_restore_bad"]}')
            for name in layers:
                held = bool(out['hold'][name])
                should = x['hasInv'] and out['gw'][name]
                if should and not held:
                    add('load', i, f'{name}: second-order data missing after '
                                   f'load on a gradient worker')
                if not should and held:
                    add('load', i, f'{name}: second-order data present after '
                                   f'load where none is expected')
            if not x['hasInv'] and len(out['lin']) != 0:
                add('load', i, f'{len(out["lin"])} decompositions during a '
                               f'load that must not recompute anything')
        elif act == 'rollback':
            if x['recomputed'] and cfg.W == 1 and \
                    len(out['lin']) < out['expected_dec']:
                add('load', i, 'roll-back with compute_inverses: only '
                               f'{len(out["lin"])} decompositions')
            if not x['recomputed'] and len(out['lin']) != 0:
                add('load', i, f'{len(out["lin"])} decompositions during a '
                               'roll-back that must not recompute anything')
        elif len(out['lin']) != 0:
            add('refresh', i, f'decompositions during {act}')
    return {'mismatches': mism, 'stats': stats}


def replay(cfg: kaisa.Config, hist: list[dict[str, Any]], seed: int,
           policy: Any = None) -> dict[str, Any]:
    """Drive the real preconditioner(s) along `hist`; return mismatches.

    W = 1: no simulated world.  W > 1: all ranks run the history on simdist;
    Mean terms range over the ranks (union batch); every rank is compared.
    """
    from harness import simdist

    torch.set_num_threads(1)
    interp = Interp(cfg, {})
    if cfg.W == 1:
        try:
            recs = execute(cfg, hist, seed, 0, interp)
        except Exception as e:  # noqa: BLE001  (constructor failed)
            return {'mismatches': [{
                'cat': 'raise', 'at': -1, 'act': 'construct', 'rank': 0,
                'msg': f'constructor raised {type(e).__name__}: '
                       f'{str(e)[:200]}'}], 'stats': {}, 'comm': []}
        out = compare(cfg, hist, recs, interp)
        out['comm'] = []
        out['step_grads'] = {0: [o['grads'] for o in recs if 'grads' in o]}
        return out
    allrecs: dict[int, list] = {}

    def body(r: int) -> None:
        allrecs[r] = []
        execute(cfg, hist, seed, r, interp, allrecs[r])

    world = simdist.World(cfg.W, policy or simdist.RandomPolicy(seed))
    world.run(body)
    mism: list[dict[str, Any]] = []
    stats: dict[str, float] = {}
    comm = [m for m in world.monitors]
    errs = [rs.error for rs in world.ranks]
    if any(e is not None for e in errs) or comm:
        # uniform predicted raise is fine: check rank 0's records only
        pass
    # refresh steps / recomputing loads: every factor decomposed somewhere
    for i, rec in enumerate(hist):
        need = (rec['act'] == 'step' and rec['x'].get('refresh')) or \
            (rec['act'] == 'load' and rec['x'].get('hasInv'))
        if not need or any(len(allrecs.get(r, [])) <= i for r in range(cfg.W)):
            continue
        total = sum(len(allrecs[r][i].get('lin', [])) for r in range(cfg.W))
        nfac = sum(allrecs[r][i].get('expected_dec', 0) for r in range(cfg.W))
        if total < nfac:
            mism.append({'cat': 'refresh', 'at': i, 'act': rec['act'],
                         'rank': -1,
                         'msg': f'{total} decompositions over all ranks for '
                                f'{nfac} factors'})
    for r in range(cfg.W):
        recs = allrecs.get(r, [])
        if len(recs) < len(hist) and not (recs and recs[-1]['raised']):
            mism.append({'cat': 'raise', 'at': len(recs), 'rank': r,
                         'act': hist[min(len(recs), len(hist) - 1)]['act'],
                         'msg': f'rank {r} did not finish: {errs[r]!r}'[:300]})
            continue
        out = compare(cfg, hist, recs, interp, rank=r)
        mism += out['mismatches']
        for k, v in out['stats'].items():
            if k.startswith('max'):
                stats[k] = max(stats.get(k, 0.0), v)
            elif r == 0:
                stats[k] = stats.get(k, 0) + v
    step_grads = {
        r: [o['grads'] for o in allrecs.get(r, []) if 'grads' in o]
        for r in range(cfg.W)}
    return {'mismatches': mism, 'stats': stats, 'comm': comm,
            'events': len(world.events), 'step_grads': step_grads,
            'world': world, 'allrecs': allrecs}


def factor_tol_scale(dt: torch.dtype) -> float:
    return {torch.float64: 1.0, torch.float32: 1.0, torch.bfloat16: 2000.0,
            torch.float16: 300.0}[dt]


def grad_tol_scale(cfg: kaisa.Config) -> float:
    s = 1.0
    for d in (cfg.param_dtype, cfg.factor_dtype, cfg.inv_dtype):
        if d in ('bfloat16',):
            s = max(s, 400.0)
        if d in ('float16',):
            s = max(s, 50.0)
    return s


def state_digest(rr: kaisa.RankRun) -> str:
    """Digest of all K-FAC state (for the eval-mode frame condition)."""
    import hashlib

    hsh = hashlib.sha1()
    pre = rr.pre
    hsh.update(repr((pre.steps, dict(pre._mini_steps))).encode())
    for name, layer in rr.registered():
        for k, v in sorted(vars(layer).items()):
            if isinstance(v, torch.Tensor):
                hsh.update(k.encode())
                hsh.update(v.detach().cpu().double().numpy().tobytes())
            elif isinstance(v, (int, float, bool, type(None))):
                hsh.update(f'{k}={v}'.encode())
    return hsh.hexdigest()
