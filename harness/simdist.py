"""simdist: an in-process, scheduler-controlled replacement of torch.distributed.

W ranks run as W threads of one Python process.  Exactly one thread runs at a
time (a baton is handed over explicitly).  Every collective issue, every
blocking wait and every completion of a collective slot is a scheduling point
chosen by a policy (seeded random, lazy/eager completion, rank priorities, or
an explicit schedule produced by TLC from spec/Comm.tla).  Stalls are detected
instead of hanging.

Collective semantics follow the torch.distributed contract modelled by
spec/Comm.tla:

* the i-th operation a member issues on a group joins slot i of that group;
* a slot can complete when all members of the group joined it;
* slots of one group complete in FIFO order;
* results are written in place at completion; sums are taken in rank order;
* new_group is a world-level collective whose argument must agree.

Monitors record (never raise into the code under test unless torch itself
would): kind/shape/dtype/root mismatches inside a slot, root not a member, use
of a group by a non-member (then behave like torch: warn-and-return-None),
differing new_group sequences, a buffer modified while in flight, stalls and
slots left incomplete at the end.

Nothing in /repo is modified: module attributes of ``torch.distributed`` and
methods of the torch Future classes are patched while a World is installed.
"""

from __future__ import annotations

import random
import threading
import traceback
from typing import Any, Callable

import torch
import torch.distributed as dist

_tls = threading.local()
_WORLD: 'World | None' = None


class WouldBlock(RuntimeError):
    """Raised instead of blocking when an observation (harness code inside
    `nonblocking()`) touches a future that has not completed."""


class nonblocking:
    """Observations must never change the schedule of the code under test:
    inside this context a wait on a pending future raises WouldBlock, a wait
    on a completed one returns without a scheduling point or a log entry."""

    def __enter__(self) -> None:
        self._prev = getattr(_tls, 'peeking', False)
        _tls.peeking = True

    def __exit__(self, *a: Any) -> None:
        _tls.peeking = self._prev


class SimStall(RuntimeError):
    """Raised inside rank threads when the world stalled / was aborted."""


class NonMember:
    """Sentinel returned by new_group to ranks that are not members."""

    def __repr__(self) -> str:
        return 'NON_GROUP_MEMBER'


NON_MEMBER = NonMember()


class SimGroup(dist.ProcessGroup):
    """Per-rank handle on a simulated process group."""

    def __init__(self, gid: int, ranks: tuple[int, ...], rank: int) -> None:
        super().__init__(ranks.index(rank), len(ranks))
        self.gid = gid
        self.ranks = ranks
        self.owner_rank = rank

    def __repr__(self) -> str:
        return f'SimGroup(gid={self.gid}, ranks={self.ranks})'


class SimWork:
    """Work-like object returned by async collectives."""

    def __init__(self, fut: torch.futures.Future) -> None:
        self._fut = fut

    def get_future(self) -> torch.futures.Future:
        return self._fut

    def wait(self) -> bool:
        self._fut.wait()
        return True

    def is_completed(self) -> bool:
        return self._fut.done()


class Slot:
    __slots__ = (
        'gid', 'idx', 'members', 'joined', 'done', 'kind', 'futs', 'snap',
    )

    def __init__(self, gid: int, idx: int, members: tuple[int, ...]) -> None:
        self.gid = gid
        self.idx = idx
        self.members = members
        self.joined: dict[int, dict[str, Any]] = {}
        self.done = False
        self.futs: dict[int, torch.futures.Future] = {}
        self.snap: dict[int, Any] = {}


# --------------------------------------------------------------------------
# policies
# --------------------------------------------------------------------------
class Policy:
    """Chooses the next action among enabled ones.

    Actions are tuples: ('run', rank) or ('complete', gid, slot_idx).
    """

    name = 'policy'

    def choose(self, actions: list[tuple], world: 'World') -> tuple:
        raise NotImplementedError


class RandomPolicy(Policy):
    def __init__(self, seed: int, p_complete: float = 0.5) -> None:
        self.rng = random.Random(seed)
        self.p_complete = p_complete
        self.name = f'random({seed},{p_complete})'

    def choose(self, actions, world):
        comp = [a for a in actions if a[0] == 'complete']
        run = [a for a in actions if a[0] == 'run']
        if comp and run:
            if self.rng.random() < self.p_complete:
                return self.rng.choice(comp)
            return self.rng.choice(run)
        return self.rng.choice(actions)


class LazyCompletion(Policy):
    """Complete a slot only when no rank can move (latest possible)."""

    def __init__(self, seed: int = 0, order: list[int] | None = None) -> None:
        self.rng = random.Random(seed)
        self.order = order
        self.name = f'lazy({seed},{order})'

    def choose(self, actions, world):
        run = [a for a in actions if a[0] == 'run']
        if run:
            if self.order is not None:
                return min(run, key=lambda a: self.order.index(a[1]))
            return self.rng.choice(run)
        return actions[0]


class EagerCompletion(Policy):
    """Complete every slot as soon as possible; run ranks by priority."""

    def __init__(self, order: list[int] | None = None) -> None:
        self.order = order
        self.name = f'eager({order})'

    def choose(self, actions, world):
        comp = [a for a in actions if a[0] == 'complete']
        if comp:
            return comp[0]
        run = [a for a in actions if a[0] == 'run']
        if self.order is not None:
            return min(run, key=lambda a: self.order.index(a[1]))
        return run[0]


class RunToBlock(Policy):
    """Keep running the current rank until it blocks (coarse interleaving)."""

    def __init__(self, order: list[int] | None = None, lazy: bool = True):
        self.order = order
        self.lazy = lazy
        self.name = f'runtoblock({order},{lazy})'

    def choose(self, actions, world):
        run = [a for a in actions if a[0] == 'run']
        comp = [a for a in actions if a[0] == 'complete']
        if not self.lazy and comp:
            return comp[0]
        cur = world.current
        for a in run:
            if a[1] == cur:
                return a
        if run:
            if self.order is not None:
                return min(run, key=lambda a: self.order.index(a[1]))
            return run[0]
        return comp[0]


class ScriptPolicy(Policy):
    """Follow an explicit schedule (from TLC); fall back when exhausted.

    Script entries: ('rank', r) -- let rank r perform its next program
    operation (issue or wait); ('complete', gid).  Entries that are not
    enabled at the moment are skipped over lazily: the policy picks the
    first script entry that is enabled and removes it.
    """

    def __init__(self, script: list[tuple], fallback: Policy | None = None):
        self.script = list(script)
        self.fallback = fallback or LazyCompletion(0)
        self.name = f'script({len(script)})'
        self.followed = 0
        self.skipped = 0

    def choose(self, actions, world):
        while self.script:
            ent = self.script[0]
            if ent[0] == 'rank':
                cand = ('run', ent[1])
                if cand in actions and not world.ranks[ent[1]].started:
                    # thread start-up has no counterpart in the spec
                    return cand
                if cand in actions:
                    self.script.pop(0)
                    self.followed += 1
                    return cand
            else:
                for a in actions:
                    if a[0] == 'complete' and a[1] == ent[1]:
                        self.script.pop(0)
                        self.followed += 1
                        return a
            # not enabled now: if some other action could enable it later,
            # take the fallback among the others; else drop the entry.
            others = [a for a in actions]
            if others:
                self.skipped += 1
                return self.fallback.choose(others, world)
            self.script.pop(0)
        return self.fallback.choose(actions, world)


# --------------------------------------------------------------------------
# the world
# --------------------------------------------------------------------------
class RankState:
    def __init__(self, rank: int) -> None:
        self.rank = rank
        self.sem = threading.Semaphore(0)
        self.finished = False
        self.started = False
        self.blocked_on: Any = None  # ('fut', fut) | ('slot', slot) | None
        self.result: Any = None
        self.error: BaseException | None = None
        self.error_tb: str | None = None
        self.seq = 0
        self.ng_count = 0
        self.ctx: Any = None


class World:
    """A simulated torch.distributed world of `size` ranks."""

    def __init__(
        self,
        size: int,
        policy: Policy | None = None,
        record: bool = True,
        max_actions: int = 2_000_000,
    ) -> None:
        self.size = size
        self.policy = policy or RandomPolicy(0)
        self.record = record
        self.ranks = [RankState(r) for r in range(size)]
        # groups: gid -> tuple of ranks ; gid 0 is the world
        self.groups: dict[int, tuple[int, ...]] = {0: tuple(range(size))}
        self.group_names: dict[int, str] = {0: 'world'}
        self.slots: dict[int, list[Slot]] = {0: []}
        self.issued: dict[int, dict[int, int]] = {
            0: {r: 0 for r in range(size)},
        }
        self.completed: dict[int, int] = {0: 0}
        # new_group channel
        self.ng_calls: list[dict[str, Any]] = []  # index i -> call record
        self.events: list[dict[str, Any]] = []
        self.monitors: list[dict[str, Any]] = []
        self.current: int | None = None
        self.aborted = False
        self.stall: dict[str, Any] | None = None
        self.done_evt = threading.Event()
        self.n_actions = 0
        self.max_actions = max_actions
        # wait attribution
        self.fut_root: dict[int, tuple[int, int]] = {}
        self.fut_parent: dict[int, Any] = {}
        self.fut_keep: list[Any] = []
        self.completing: tuple[int, int] | None = None
        self.unattributed_waits = 0
        self.world_group_handles = [
            SimGroup(0, tuple(range(size)), r) for r in range(size)
        ]

    # -- event log ---------------------------------------------------------
    def log(self, rank: int | None, ev: str, **kw: Any) -> None:
        if not self.record:
            return
        rec: dict[str, Any] = {'ev': ev}
        if rank is not None:
            rs = self.ranks[rank]
            rs.seq += 1
            rec['rank'] = rank
            rec['seq'] = rs.seq
        rec.update(kw)
        self.events.append(rec)

    def monitor(self, kind: str, **kw: Any) -> None:
        rec = {'kind': kind, 'ctx': getattr(_tls, 'ctx', None)}
        rec.update(kw)
        self.monitors.append(rec)

    # -- running -----------------------------------------------------------
    def run(
        self,
        fn: Callable[[int], Any],
        timeout: float = 600.0,
    ) -> list[Any]:
        """Run fn(rank) on every rank; returns list of results.

        Exceptions raised by a rank are stored in ``self.ranks[r].error``.
        """
        global _WORLD
        assert _WORLD is None, 'nested simdist worlds are not supported'
        _install_patches()
        _WORLD = self
        threads = []
        try:
            for rs in self.ranks:
                t = threading.Thread(
                    target=self._thread_main,
                    args=(rs, fn),
                    daemon=True,
                )
                threads.append(t)
                t.start()
            # hand the baton to the first chosen rank
            self._dispatch(None)
            if not self.done_evt.wait(timeout):
                self.aborted = True
                self.stall = {'reason': 'timeout'}
                self.monitor('timeout')
                for rs in self.ranks:
                    rs.sem.release()
            for t in threads:
                t.join(10.0)
        finally:
            _WORLD = None
        self._final_monitors()
        return [rs.result for rs in self.ranks]

    def _thread_main(self, rs: RankState, fn: Callable[[int], Any]) -> None:
        _tls.rank = rs.rank
        rs.sem.acquire()  # wait for the baton
        rs.started = True
        try:
            if self.aborted:
                raise SimStall('world aborted before start')
            rs.result = fn(rs.rank)
        except SimStall as e:
            rs.error = e
        except BaseException as e:  # noqa: BLE001
            rs.error = e
            rs.error_tb = traceback.format_exc()
            self.log(rs.rank, 'error', type=type(e).__name__, msg=str(e)[:300])
        finally:
            rs.finished = True
            rs.blocked_on = None
            _tls.rank = None
            if not self.aborted:
                self._dispatch(None)

    # -- scheduling ----------------------------------------------------------
    def _enabled(self) -> list[tuple]:
        acts: list[tuple] = []
        for rs in self.ranks:
            if rs.finished:
                continue
            b = rs.blocked_on
            if b is None:
                acts.append(('run', rs.rank))
            elif b[0] == 'fut':
                if b[1].done():
                    acts.append(('run', rs.rank))
            elif b[0] == 'slot':
                if b[1].done:
                    acts.append(('run', rs.rank))
        for gid, sl in self.slots.items():
            c = self.completed[gid]
            if c < len(sl):
                s = sl[c]
                if len(s.joined) == len(s.members):
                    acts.append(('complete', gid, c))
        # new_group channel
        c = self._ng_completed
        if c < len(self.ng_calls):
            call = self.ng_calls[c]
            if len(call['joined']) == self.size:
                acts.append(('complete', -1, c))
        return acts

    _ng_completed = 0

    def _dispatch(self, me: int | None) -> None:
        """Choose and perform actions until a rank must run.

        Called by the thread holding the baton.  If ``me`` is chosen the
        function simply returns; otherwise the baton is handed over and, if
        ``me`` is not None, the caller blocks until it gets it back.
        """
        while True:
            if self.aborted:
                if me is not None:
                    raise SimStall('aborted')
                return
            acts = self._enabled()
            if not acts:
                if all(rs.finished for rs in self.ranks):
                    self.done_evt.set()
                    return
                self._stall()
                if me is not None:
                    raise SimStall('stall')
                return
            self.n_actions += 1
            if self.n_actions > self.max_actions:
                self.aborted = True
                self.stall = {'reason': 'max_actions'}
                self.monitor('max_actions')
                self._wake_all(me)
                if me is not None:
                    raise SimStall('max_actions')
                return
            a = self.policy.choose(acts, self)
            if a[0] == 'complete':
                if a[1] == -1:
                    self._complete_ng(a[2])
                else:
                    self._complete(a[1], a[2])
                continue
            target = a[1]
            self.current = target
            if target == me:
                return
            self.ranks[target].sem.release()
            if me is not None:
                self.ranks[me].sem.acquire()
                if self.aborted:
                    raise SimStall('aborted')
            return

    def _wake_all(self, me: int | None) -> None:
        self.done_evt.set()
        for rs in self.ranks:
            if rs.rank != me and not rs.finished:
                rs.sem.release()

    def _stall(self) -> None:
        self.aborted = True
        waits = {}
        for rs in self.ranks:
            if rs.finished:
                continue
            b = rs.blocked_on
            if b is None:
                waits[rs.rank] = 'runnable?'
            elif b[0] == 'slot':
                s = b[1]
                if isinstance(s, Slot):
                    waits[rs.rank] = {
                        'group': s.gid,
                        'slot': s.idx,
                        'kind': s.kind if hasattr(s, 'kind') else None,
                        'missing': [
                            m for m in s.members if m not in s.joined
                        ],
                    }
                else:
                    waits[rs.rank] = {
                        'new_group': s['idx'],
                        'missing': [
                            m for m in range(self.size)
                            if m not in s['joined']
                        ],
                    }
            else:
                root = self._attribute(b[1])
                info: dict[str, Any] = {'future_of': root}
                if root is not None:
                    s = self.slots[root[0]][root[1]]
                    info['missing'] = [
                        m for m in s.members if m not in s.joined
                    ]
                waits[rs.rank] = info
        self.stall = {'reason': 'deadlock', 'waits': waits,
                      'ctx': {rs.rank: rs.ctx for rs in self.ranks}}
        self.monitor('stall', waits=waits)
        self.log(None, 'stall', waits=waits)
        self._wake_all(getattr(_tls, 'rank', None))

    def yield_point(self) -> None:
        me = _tls.rank
        self._dispatch(me)

    def block_on(self, what: tuple) -> None:
        me = _tls.rank
        rs = self.ranks[me]
        rs.blocked_on = what
        try:
            self._dispatch(me)
        finally:
            rs.blocked_on = None

    # -- groups --------------------------------------------------------------
    def new_group(self, ranks: list[int] | None, **kw: Any) -> Any:
        me = _tls.rank
        rs = self.ranks[me]
        if ranks is None:
            ranks = list(range(self.size))
        key = tuple(sorted(int(r) for r in ranks))
        self.yield_point()
        idx = rs.ng_count
        rs.ng_count += 1
        if idx >= len(self.ng_calls):
            assert idx == len(self.ng_calls)
            self.ng_calls.append(
                {'idx': idx, 'joined': {}, 'done': False, 'gid': None},
            )
        call = self.ng_calls[idx]
        call['joined'][me] = key
        self.log(me, 'new_group', idx=idx, ranks=list(key), owner=_owner(),
                 at=(getattr(_tls, 'ctx', None) or {}).get('n', -1) + 1)
        self.block_on(('slot', _NGSlot(call)))
        gid = call['gids'].get(key)
        if gid is None or me not in key:
            return NON_MEMBER
        return SimGroup(gid, key, me)

    def _complete_ng(self, idx: int) -> None:
        call = self.ng_calls[idx]
        keys = set(call['joined'].values())
        if len(keys) != 1:
            self.monitor(
                'new_group_mismatch',
                idx=idx,
                args={r: list(k) for r, k in call['joined'].items()},
            )
        gids = {}
        for key in sorted(keys):
            gid = max(self.groups) + 1
            self.groups[gid] = key
            self.slots[gid] = []
            self.issued[gid] = {r: 0 for r in key}
            self.completed[gid] = 0
            gids[key] = gid
        call['gids'] = gids
        call['done'] = True
        self._ng_completed = idx + 1
        self.log(None, 'complete_new_group', idx=idx,
                 gids={str(list(k)): g for k, g in gids.items()})

    # -- collectives -----------------------------------------------------------
    def _resolve_group(self, group: Any) -> tuple[int, tuple[int, ...]] | None:
        me = _tls.rank
        if group is None:
            return 0, self.groups[0]
        if isinstance(group, NonMember):
            return None
        if isinstance(group, SimGroup):
            if me not in group.ranks:
                return None
            return group.gid, group.ranks
        raise TypeError(f'unknown group object {group!r}')

    def collective(
        self,
        kind: str,
        group: Any,
        payload: dict[str, Any],
        async_op: bool,
        root: int | None = None,
    ) -> Any:
        me = _tls.rank
        g = self._resolve_group(group)
        if g is None:
            # torch: warns and returns None for non members
            gid = group.gid if isinstance(group, SimGroup) else None
            self.monitor('foreign_group', rank=me, op=kind, gid=gid,
                         owner=_owner())
            self.log(me, 'foreign', kind=kind, owner=_owner())
            return None
        gid, members = g
        self.yield_point()
        idx = self.issued[gid][me]
        self.issued[gid][me] = idx + 1
        sl = self.slots[gid]
        if idx >= len(sl):
            assert idx == len(sl)
            sl.append(Slot(gid, idx, members))
        slot = sl[idx]
        meta = _meta(kind, payload, root)
        slot.joined[me] = payload
        payload['_meta'] = meta
        payload['_ctx'] = getattr(_tls, 'ctx', None)
        payload['_kind'] = kind
        payload['_root'] = root
        slot.kind = kind
        fut: torch.futures.Future = torch.futures.Future()
        slot.futs[me] = fut
        self.fut_root[id(fut)] = (gid, idx)
        self.fut_keep.append(fut)
        snap = _snapshot(kind, payload, root, me)
        if snap is not None:
            slot.snap[me] = snap
        if root is not None and root not in members:
            self.monitor('root_not_member', rank=me, gid=gid, slot=idx,
                         root=root, members=list(members), op=kind)
        t_ = payload.get('tensor')
        if isinstance(t_, torch.Tensor) and not _is_dense(t_):
            self.monitor('non_dense_buffer', rank=me, gid=gid, slot=idx,
                         op=kind, shape=list(t_.shape),
                         stride=list(t_.stride()))
        self.log(
            me, 'issue', group=gid, slot=idx, kind=kind, root=root,
            numel=meta.get('numel'), shape=meta.get('shape'),
            dtype=meta.get('dtype'), **{'async': bool(async_op)},
            owner=_owner(),
            at=(getattr(_tls, 'ctx', None) or {}).get('n', -1) + 1
            if isinstance(getattr(_tls, 'ctx', None), dict) else 0,
        )
        if async_op:
            return SimWork(fut)
        if not slot.done:
            self.block_on(('slot', slot))
        self.log(me, 'wait', group=gid, slot=idx, owner=_owner(),
                 sync=True)
        return None

    def _complete(self, gid: int, idx: int) -> None:
        slot = self.slots[gid][idx]
        members = slot.members
        kinds = {p['_kind'] for p in slot.joined.values()}
        metas = {repr(p['_meta']) for p in slot.joined.values()}
        roots = {p['_root'] for p in slot.joined.values()}
        bad = False
        if len(kinds) != 1 or len(metas) != 1 or len(roots) != 1:
            bad = True
            self.monitor(
                'slot_mismatch', gid=gid, slot=idx,
                ops={
                    r: [p['_kind'], p['_root'], p['_meta']]
                    for r, p in slot.joined.items()
                },
                ctx=sorted({str(p.get('_ctx')) for p in slot.joined.values()}),
            )
        # in-flight modification check
        for r, snap in slot.snap.items():
            cur = _snapshot(slot.joined[r]['_kind'], slot.joined[r],
                            slot.joined[r]['_root'], r)
            if cur is not None and not _snap_equal(snap, cur):
                self.monitor('inflight_write', gid=gid, slot=idx, rank=r,
                             op=slot.joined[r]['_kind'])
        self.completed[gid] = idx + 1
        slot.done = True
        self.log(None, 'complete', group=gid, slot=idx)
        if not bad:
            kind = next(iter(kinds))
            try:
                _apply(kind, members, slot.joined)
            except Exception as e:  # noqa: BLE001
                self.monitor('apply_error', gid=gid, slot=idx, msg=str(e))
        # resolve futures (callbacks run as the owning rank)
        prev_rank = getattr(_tls, 'rank', None)
        self.completing = (gid, idx)
        try:
            for r in members:
                fut = slot.futs[r]
                _tls.rank = r
                p = slot.joined[r]
                res = p.get('tensor')
                try:
                    fut.set_result([res] if res is not None else [])
                except Exception as e:  # noqa: BLE001
                    self.monitor('callback_error', gid=gid, slot=idx,
                                 rank=r, msg=repr(e)[:300])
        finally:
            _tls.rank = prev_rank
            self.completing = None

    # -- futures -----------------------------------------------------------
    def _attribute(self, fut: Any) -> tuple[int, int] | None:
        seen = 0
        cur = fut
        while cur is not None and seen < 64:
            k = id(cur)
            if k in self.fut_root:
                return self.fut_root[k]
            cur = self.fut_parent.get(k)
            seen += 1
        return None

    def wait_future(self, fut: Any, orig_wait: Callable[[Any], Any]) -> Any:
        me = _tls.rank
        if not fut.done():
            self.block_on(('fut', fut))
        else:
            self.yield_point()
        root = self._attribute(fut)
        if root is None:
            self.unattributed_waits += 1
        self.log(
            me, 'wait',
            group=None if root is None else root[0],
            slot=None if root is None else root[1],
            owner=_owner(),
        )
        return orig_wait(fut)

    # -- end ---------------------------------------------------------------
    def _final_monitors(self) -> None:
        for gid, sl in self.slots.items():
            for s in sl:
                if not s.done:
                    self.monitor(
                        'incomplete_slot', gid=gid, slot=s.idx,
                        op=getattr(s, 'kind', None),
                        joined=sorted(s.joined),
                        missing=[m for m in s.members if m not in s.joined],
                    )
        for call in self.ng_calls:
            if not call['done']:
                self.monitor(
                    'incomplete_new_group', idx=call['idx'],
                    joined=sorted(call['joined']),
                )

    # -- programs ------------------------------------------------------------
    def programs(self, owner: str | None = None) -> dict[int, list[dict]]:
        """Per-rank communication programs extracted from the event log."""
        progs: dict[int, list[dict]] = {r: [] for r in range(self.size)}
        for e in self.events:
            r = e.get('rank')
            if r is None:
                continue
            if e['ev'] == 'new_group':
                progs[r].append({'t': 'NG', 'ranks': e['ranks']})
            elif e['ev'] == 'issue':
                progs[r].append({
                    't': 'I', 'g': e['group'], 'i': e['slot'],
                    'kind': e['kind'], 'root': e['root'],
                    'numel': e['numel'], 'dtype': e['dtype'],
                    'shape': e['shape'],
                    'sync': not e['async'], 'owner': e['owner'],
                })
            elif e['ev'] == 'wait':
                if e.get('group') is None:
                    continue
                progs[r].append({
                    't': 'W', 'g': e['group'], 'i': e['slot'],
                    'sync': bool(e.get('sync')),
                })
            elif e['ev'] == 'foreign':
                progs[r].append({'t': 'F', 'kind': e['kind']})
        return progs


class _NGSlot:
    """Adapter so a new_group call can be blocked on like a slot."""

    def __init__(self, call: dict[str, Any]) -> None:
        self.call = call

    @property
    def done(self) -> bool:
        return self.call['done']

    def __getitem__(self, k: str) -> Any:
        return self.call[k]


def _meta(kind: str, p: dict[str, Any], root: int | None) -> dict[str, Any]:
    t = p.get('tensor')
    if kind in ('all_reduce', 'broadcast', 'reduce', 'gather', 'scatter'):
        return {
            'numel': t.numel(), 'shape': list(t.shape),
            'dtype': str(t.dtype).replace('torch.', ''),
        }
    if kind == 'all_gather':
        return {
            'numel': t.numel(), 'shape': list(t.shape),
            'dtype': str(t.dtype).replace('torch.', ''),
            'n': len(p['tensor_list']),
        }
    if kind == 'reduce_scatter':
        o = p['output']
        return {
            'numel': o.numel(), 'shape': list(o.shape),
            'dtype': str(o.dtype).replace('torch.', ''),
            'n': len(p['input_list']),
        }
    if kind == 'all_gather_object':
        return {'numel': None, 'shape': None, 'dtype': 'object',
                'n': len(p['object_list'])}
    return {'numel': None, 'shape': None, 'dtype': None}


def _snapshot(kind: str, p: dict[str, Any], root: int | None, me: int) -> Any:
    if kind in ('all_reduce', 'reduce', 'gather'):
        return p['tensor'].detach().clone()
    if kind == 'broadcast' and root == me:
        return p['tensor'].detach().clone()
    if kind == 'all_gather':
        return p['tensor'].detach().clone()
    if kind == 'reduce_scatter':
        return [t.detach().clone() for t in p['input_list']]
    return None


def _snap_equal(a: Any, b: Any) -> bool:
    if isinstance(a, list):
        return all(_snap_equal(x, y) for x, y in zip(a, b))
    if a.shape != b.shape:
        return False
    return bool(torch.equal(a, b) or (
        torch.isnan(a).any() and torch.equal(
            torch.nan_to_num(a), torch.nan_to_num(b))))


def _raw(t: torch.Tensor) -> torch.Tensor:
    """The tensor's elements in STORAGE order.  Real back-ends move raw
    memory: a dense but non-contiguous tensor (e.g. column-major eigenvectors)
    is transferred in storage order, not in logical order."""
    if t.is_contiguous():
        return t.view(-1) if t.dim() != 1 else t
    if _is_dense(t):
        return torch.as_strided(t, (t.numel(),), (1,), t.storage_offset())
    return t.reshape(-1)       # not dense: flagged by the monitor at issue


def _is_dense(t: torch.Tensor) -> bool:
    if t.numel() == 0 or t.is_contiguous():
        return True
    # dense and non-overlapping: strides are a permutation of a contiguous layout
    dims = sorted(((st, sz) for st, sz in zip(t.stride(), t.shape) if sz > 1))
    expect = 1
    for st, sz in dims:
        if st != expect:
            return False
        expect *= sz
    return True


def _apply(kind: str, members: tuple[int, ...], joined: dict[int, dict]) -> None:
    with torch.no_grad():
        if kind in ('all_reduce', 'broadcast', 'reduce'):
            # operate on raw storage order like real back-ends
            joined = {r: dict(p) for r, p in joined.items()}
            for r in joined:
                joined[r]['tensor'] = _raw(joined[r]['tensor'])
        if kind == 'all_reduce':
            ts = [joined[r]['tensor'] for r in members]
            acc = ts[0].detach().clone()
            for t in ts[1:]:
                acc = acc + t
            op = joined[members[0]].get('op')
            if op == 'avg':
                acc = acc / len(members)
            for t in ts:
                t.copy_(acc)
        elif kind == 'broadcast':
            root = joined[members[0]]['_root']
            src = joined[root]['tensor']
            for r in members:
                if r != root:
                    joined[r]['tensor'].copy_(src)
        elif kind == 'reduce':
            root = joined[members[0]]['_root']
            ts = [joined[r]['tensor'] for r in members]
            acc = ts[0].detach().clone()
            for t in ts[1:]:
                acc = acc + t
            joined[root]['tensor'].copy_(acc)
        elif kind == 'gather':
            root = joined[members[0]]['_root']
            lst = joined[root]['gather_list']
            for i, m in enumerate(members):
                lst[i].copy_(joined[m]['tensor'])
        elif kind == 'scatter':
            root = joined[members[0]]['_root']
            lst = joined[root]['scatter_list']
            for i, m in enumerate(members):
                joined[m]['tensor'].copy_(lst[i])
        elif kind == 'all_gather':
            for r in members:
                lst = joined[r]['tensor_list']
                for i, m in enumerate(members):
                    lst[i].copy_(joined[m]['tensor'])
        elif kind == 'reduce_scatter':
            outs = []
            for i, r in enumerate(members):
                acc = joined[members[0]]['input_list'][i].detach().clone()
                for m in members[1:]:
                    acc = acc + joined[m]['input_list'][i]
                outs.append(acc)
            for i, r in enumerate(members):
                joined[r]['output'].copy_(outs[i])
        elif kind == 'all_gather_object':
            import copy
            for r in members:
                lst = joined[r]['object_list']
                for i, m in enumerate(members):
                    lst[i] = copy.deepcopy(joined[m]['obj'])
        elif kind == 'barrier':
            pass
        else:
            raise ValueError(kind)


# --------------------------------------------------------------------------
# patches of torch.distributed and torch futures
# --------------------------------------------------------------------------
_ORIG: dict[str, Any] = {}
_PATCHED = False


def _w() -> World | None:
    if _WORLD is not None and getattr(_tls, 'rank', None) is not None:
        return _WORLD
    return None


def current_rank() -> int | None:
    return getattr(_tls, 'rank', None)


def group_ranks_of(g: Any, size: int) -> tuple[int, ...]:
    if g is None:
        return tuple(range(size))
    return tuple(getattr(g, 'ranks', ()))


def per_node(size: int) -> int:
    """Processes per node of the simulated two-node launch."""
    return max(1, (size + 1) // 2)


def _install_patches() -> None:
    global _PATCHED
    if _PATCHED:
        return
    _PATCHED = True
    names = [
        'is_initialized', 'get_rank', 'get_world_size', 'new_group',
        'all_reduce', 'broadcast', 'all_gather', 'reduce_scatter', 'barrier',
        'all_gather_object', 'get_process_group_ranks', 'is_available',
        'reduce', 'gather', 'scatter',
    ]
    for n in names:
        _ORIG[n] = getattr(dist, n)

    def is_initialized() -> bool:
        if _w() is not None:
            return True
        return _ORIG['is_initialized']()

    def is_available() -> bool:
        return True

    def get_rank(group: Any = None) -> int:
        w = _w()
        if w is None:
            return _ORIG['get_rank'](group)
        me = _tls.rank
        if group is None:
            return me
        if isinstance(group, NonMember):
            return -1
        if me not in group.ranks:
            return -1
        return group.ranks.index(me)

    def get_world_size(group: Any = None) -> int:
        w = _w()
        if w is None:
            return _ORIG['get_world_size'](group)
        if group is None:
            return w.size
        if isinstance(group, NonMember):
            return -1
        if _tls.rank not in group.ranks:
            return -1
        return len(group.ranks)

    def get_process_group_ranks(group: Any) -> list[int]:
        w = _w()
        if w is None:
            return _ORIG['get_process_group_ranks'](group)
        if group is None:
            return list(range(w.size))
        return list(group.ranks)

    def new_group(ranks: Any = None, *a: Any, **kw: Any) -> Any:
        w = _w()
        if w is None:
            return _ORIG['new_group'](ranks, *a, **kw)
        return w.new_group(ranks, **kw)

    def _opname(op: Any) -> str:
        if op is None:
            return 'sum'
        s = str(op).lower()
        if 'avg' in s:
            return 'avg'
        if 'sum' in s:
            return 'sum'
        raise NotImplementedError(f'simdist: reduce op {op}')

    def all_reduce(tensor, op=None, group=None, async_op=False):
        w = _w()
        if w is None:
            return _ORIG['all_reduce'](tensor, op, group, async_op) \
                if op is not None else _ORIG['all_reduce'](
                    tensor, group=group, async_op=async_op)
        return w.collective(
            'all_reduce', group,
            {'tensor': tensor, 'op': _opname(op)}, async_op,
        )

    def broadcast(tensor, src=None, group=None, async_op=False,
                  group_src=None):
        w = _w()
        if w is None:
            return _ORIG['broadcast'](tensor, src, group, async_op)
        return w.collective(
            'broadcast', group, {'tensor': tensor}, async_op, root=src,
        )

    def all_gather(tensor_list, tensor, group=None, async_op=False):
        w = _w()
        if w is None:
            return _ORIG['all_gather'](tensor_list, tensor, group, async_op)
        return w.collective(
            'all_gather', group,
            {'tensor_list': tensor_list, 'tensor': tensor}, async_op,
        )

    def reduce_scatter(output, input_list, op=None, group=None,
                       async_op=False):
        w = _w()
        if w is None:
            return _ORIG['reduce_scatter'](output, input_list,
                                           group=group, async_op=async_op)
        _opname(op)
        return w.collective(
            'reduce_scatter', group,
            {'output': output, 'input_list': input_list}, async_op,
        )

    def reduce(tensor, dst=None, op=None, group=None, async_op=False,
               group_dst=None):
        w = _w()
        if w is None:
            return _ORIG['reduce'](tensor, dst, group=group, async_op=async_op)
        return w.collective(
            'reduce', group, {'tensor': tensor, 'op': _opname(op)}, async_op,
            root=dst,
        )

    def gather(tensor, gather_list=None, dst=None, group=None,
               async_op=False, group_dst=None):
        w = _w()
        if w is None:
            return _ORIG['gather'](tensor, gather_list, dst, group, async_op)
        return w.collective(
            'gather', group, {'tensor': tensor, 'gather_list': gather_list},
            async_op, root=dst,
        )

    def scatter(tensor, scatter_list=None, src=None, group=None,
                async_op=False, group_src=None):
        w = _w()
        if w is None:
            return _ORIG['scatter'](tensor, scatter_list, src, group, async_op)
        return w.collective(
            'scatter', group, {'tensor': tensor, 'scatter_list': scatter_list},
            async_op, root=src,
        )

    def barrier(group=None, async_op=False, device_ids=None):
        w = _w()
        if w is None:
            return _ORIG['barrier'](group, async_op)
        return w.collective('barrier', group, {}, async_op)

    def all_gather_object(object_list, obj, group=None):
        w = _w()
        if w is None:
            return _ORIG['all_gather_object'](object_list, obj, group)
        return w.collective(
            'all_gather_object', group,
            {'object_list': object_list, 'obj': obj}, False,
        )

    # the launcher's node-local rank: the simulated world is laid out as a
    # two-node launch (ranks 0..n-1 on node 0, the rest on node 1), so the
    # node-local rank differs from the global rank on the second node
    _ORIG['get_node_local_rank'] = getattr(dist, 'get_node_local_rank', None)

    def get_node_local_rank(fallback_rank: Any = None) -> int:
        w = _w()
        if w is None:
            return _ORIG['get_node_local_rank'](fallback_rank)
        return _tls.rank % per_node(w.size)

    if _ORIG['get_node_local_rank'] is not None:
        dist.get_node_local_rank = get_node_local_rank
    dist.is_initialized = is_initialized
    dist.is_available = is_available
    dist.get_rank = get_rank
    dist.get_world_size = get_world_size
    dist.get_process_group_ranks = get_process_group_ranks
    dist.new_group = new_group
    dist.all_reduce = all_reduce
    dist.broadcast = broadcast
    dist.all_gather = all_gather
    dist.reduce_scatter = reduce_scatter
    dist.barrier = barrier
    dist.reduce = reduce
    dist.gather = gather
    dist.scatter = scatter
    dist.all_gather_object = all_gather_object

    # ---- futures ---------------------------------------------------------
    CF = torch._C.Future
    orig_wait = CF.wait
    orig_then = CF.then
    _ORIG['wait'] = orig_wait
    _ORIG['then'] = orig_then

    def wait(self):
        w = _w()
        if getattr(_tls, 'peeking', False):
            if not self.done():
                raise WouldBlock()
            return orig_wait(self)
        if w is None:
            return orig_wait(self)
        return w.wait_future(self, orig_wait)

    def then(self, cb):
        w = _WORLD
        child = orig_then(self, cb)
        if w is not None:
            w.fut_parent[id(child)] = self
            w.fut_keep.append(child)
            w.fut_keep.append(self)
        return child

    CF.wait = wait
    CF.then = then

    PF = torch.futures.Future
    orig_set_result = PF.set_result
    _ORIG['set_result'] = orig_set_result

    def set_result(self, result):
        w = _WORLD
        if w is not None and w.completing is not None:
            if id(self) not in w.fut_root:
                w.fut_root[id(self)] = w.completing
                w.fut_keep.append(self)
        return orig_set_result(self, result)

    PF.set_result = set_result


def set_ctx(ctx: Any) -> None:
    """Tag monitors raised by the calling rank thread with a context."""
    _tls.ctx = ctx
    w = _w()
    if w is not None:
        w.ranks[_tls.rank].ctx = ctx


def _owner() -> str:
    return getattr(_tls, 'owner', None) or 'kfac'


class owner:
    """Context manager tagging collectives issued inside as driver-owned."""

    def __init__(self, name: str) -> None:
        self.name = name

    def __enter__(self) -> None:
        self.prev = getattr(_tls, 'owner', None)
        _tls.owner = self.name

    def __exit__(self, *a: Any) -> None:
        _tls.owner = self.prev


class SoloWorld:
    """Pretend to be rank `rank` of a world of `size` without other ranks.

    For code that only queries rank / world size and creates groups (work
    assignment, constructors).  new_group returns a handle immediately and
    records the call; any collective raises.
    """

    def __init__(self, rank: int, size: int) -> None:
        self.rank = rank
        self.size = size
        self.ng_calls: list[tuple[int, ...]] = []

    def __enter__(self) -> 'SoloWorld':
        global _WORLD
        assert _WORLD is None
        _install_patches()
        self._w = World(self.size, record=False)
        w = self._w
        solo = self

        def new_group(ranks: Any = None, **kw: Any) -> Any:
            key = tuple(sorted(range(solo.size) if ranks is None else ranks))
            solo.ng_calls.append(key)
            gid = len(solo.ng_calls)
            w.groups[gid] = key
            if solo.rank not in key:
                return NON_MEMBER
            return SimGroup(gid, key, solo.rank)

        def collective(*a: Any, **kw: Any) -> Any:
            raise RuntimeError('SoloWorld: collective attempted')

        w.new_group = new_group  # type: ignore
        w.collective = collective  # type: ignore
        _WORLD = w
        _tls.rank = self.rank
        # environment of a two-node torchrun launch
        import os
        n = per_node(self.size)
        self._env = {k: os.environ.get(k) for k in
                     ('RANK', 'LOCAL_RANK', 'WORLD_SIZE', 'LOCAL_WORLD_SIZE')}
        os.environ.update({'RANK': str(self.rank),
                           'LOCAL_RANK': str(self.rank % n),
                           'WORLD_SIZE': str(self.size),
                           'LOCAL_WORLD_SIZE': str(n)})
        return self

    def __exit__(self, *a: Any) -> None:
        global _WORLD
        import os
        for k, val in self._env.items():
            if val is None:
                os.environ.pop(k, None)
            else:
                os.environ[k] = val
        _WORLD = None
        _tls.rank = None
