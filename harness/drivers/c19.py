"""C19: hyper-parameter schedulers apply multiplicative factors
deterministically.

spec/Sched.tla: six parameters, every subset scheduled, a distinct dyadic
factor function per parameter, scheduler steps with and without an explicit
step argument interleaved with preconditioner steps, int() truncation of the
interval parameters, refusal of parameters that are functions; the
exponential-decay schedule as a rational function with range / monotonicity
checked by TLC.  Every maximal behaviour TLC enumerates is replayed on a real
LambdaParamScheduler bound to a real KFACPreconditioner and all six
properties are compared EXACTLY after every action.
"""

from __future__ import annotations

import json
import warnings
from fractions import Fraction
from typing import Any

import torch

from harness.common import Verdict, chash
from harness.par import pmap
from harness.progs import instantiate
from harness.tlc import run_tlc, tla

PROP = 'C19'
PARAMS = ['factor_update_steps', 'inv_update_steps', 'damping',
          'factor_decay', 'kl_clip', 'lr']
FACT = {
    'factor_update_steps': lambda s: 2.0 if s >= 1 else 1.0,
    'inv_update_steps': lambda s: 1.5 if s % 2 == 0 else 2.0,
    'damping': lambda s: 0.5,
    'factor_decay': lambda s: 1.0 if s % 2 == 0 else 0.5,
    'kl_clip': lambda s: 0.25 if s < 2 else 2.0,
    'lr': lambda s: 1.5,
}
INIT = {'factor_update_steps': 2, 'inv_update_steps': 3, 'damping': 1 / 16,
        'factor_decay': 0.5, 'kl_clip': 1 / 1024, 'lr': 0.125}
# integral initial values: python ints for the float parameters, python
# floats for the intervals
INIT_INT = {'factor_update_steps': 2.0, 'inv_update_steps': 3.0, 'damping': 1,
            'factor_decay': 1, 'kl_clip': 2, 'lr': 1}
FN = {'damping': lambda s: 0.01 * (s + 1), 'lr': lambda s: 0.1,
      'inv_update_steps': lambda s: 2}


class _Obj:
    """A schedule given as an object with __call__ / as a bound method."""

    def __init__(self, f: Any) -> None:
        self.f = f

    def __call__(self, s: int) -> Any:
        return self.f(s)

    def method(self, s: int) -> Any:
        return self.f(s)


def _two(f: Any, s: int) -> Any:
    return f(s)


# "a parameter that is already a function": every kind of callable the
# preconditioner evaluates as a schedule (it dispatches on callable())
FN_KINDS = {
    'lambda': lambda f: f,
    'partial': lambda f: __import__('functools').partial(_two, f),
    'object': lambda f: _Obj(f),
    'method': lambda f: _Obj(f).method,
}


def replay_one(d: dict[str, Any]) -> str | None:
    kind = d.get('fnkind', 'lambda')      # Sched.tla variable fnkind
    msg = replay_kind(d, kind)
    return f'{msg} (schedule given as {kind})' if msg and kind != 'lambda' \
        else msg


def replay_kind(d: dict[str, Any], kind: str) -> str | None:
    from kfac.preconditioner import KFACPreconditioner
    from kfac.scheduler import LambdaParamScheduler

    model = torch.nn.Sequential(torch.nn.ReLU())   # nothing to register
    init = INIT_INT if d.get('mode') == 'int' else INIT
    kw = {p: (FN_KINDS[kind](FN[p]) if p in d['fn'] else init[p])
          for p in PARAMS}
    with warnings.catch_warnings():
        warnings.simplefilter('ignore')
        pre = KFACPreconditioner(model, **kw)
    lam = {f'{p}_lambda': FACT[p] for p in d['scheduled']}
    try:
        sch = LambdaParamScheduler(pre, **lam)
        if d['refused']:
            return 'scheduler accepted a parameter that is a function'
    except ValueError:
        if not d['refused']:
            return 'scheduler refused although no scheduled parameter is a function'
        return None
    for i, rec in enumerate(d['h']):
        if rec['act'] == 'step':
            pre.step()
        elif rec['act'] == 'restore':
            RESTORED = {'factor_update_steps': 4, 'inv_update_steps': 5,
                        'damping': 0.25, 'factor_decay': 0.25,
                        'kl_clip': 1 / 64, 'lr': 0.5}
            sd = {'steps': 7}
            sd.update({p: RESTORED[p] for p in PARAMS if p not in d['fn']})
            pre.load_state_dict(sd, compute_inverses=False)
        else:
            sch.step(None if rec['arg'] == -1 else rec['arg'])
        if pre.steps != rec['steps']:
            return f'op {i}: steps {pre.steps} spec {rec["steps"]}'
        for p in PARAMS:
            if p in d['fn']:
                continue
            want = Fraction(rec['val'][p][0], rec['val'][p][1])
            got = getattr(pre, p)
            if p in ('factor_update_steps', 'inv_update_steps') and \
                    not isinstance(got, int) and (
                        d.get('mode') != 'int' or i >= first_sched(d, p)):
                return f'op {i}: {p} is {type(got).__name__}, not int'
            if Fraction(got) != want:
                return (f'op {i} ({rec["act"]} {rec["arg"]}): {p}={got} '
                        f'spec {float(want)}')
    return None


def first_sched(d: dict[str, Any], p: str) -> int:
    """Index of the first scheduler step (from then on an interval that is
    scheduled has been truncated to int)."""
    if p not in d['scheduled']:
        return 10 ** 9
    for i, rec in enumerate(d['h']):
        if rec['act'] == 'sched':
            return i
    return 10 ** 9


def chunk(ds: list[dict]) -> list[tuple[str, dict]]:
    out = []
    for d in ds:
        msg = replay_one(d)
        if msg:
            out.append((msg, d))
    return out


def main(tier: str, seed: int) -> int:
    v = Verdict(PROP, tier, seed, 'model_checking')
    depth = 4 if tier == 'quick' else 5
    args = [-1, 0, 3] if tier == 'quick' else [-1, 0, 1, 3]
    caps = [(1, 4), (1, 2), (19, 20), (1, 1), (2, 1)]
    defs = (f'MaxDepth == {depth}\nArgs == {tla(set(args))}\nMaxK == 64\n'
            'Caps == {' + ', '.join(f'<<{a}, {b}>>' for a, b in caps) + '}\n')
    name = 'MC_Sched'
    mod_int = instantiate('Sched', name, defs + 'InitMode == "int"\n')
    mod = instantiate('Sched', name, defs + 'InitMode == "frac"\n')
    base = ('SPECIFICATION Spec\nINVARIANT IntervalsAreInts\n'
            'INVARIANT FnParamsNeverScheduled\n'
            'PROPERTY UnscheduledUnchanged\nPROPERTY OnlySchedMoves\n'
            'PROPERTY SchedFromCurrent\n')
    r1 = run_tlc(name, cfg_text=base + 'VIEW view\nINVARIANT ExpDecayOK\n'
                 'CHECK_DEADLOCK FALSE\n', extra_modules={name: mod},
                 workers=8, deadlock=False, timeout=1800)
    r2 = run_tlc(name, cfg_text='SPECIFICATION Spec\nCONSTRAINT EmitDone\n'
                 'CHECK_DEADLOCK FALSE\n', extra_modules={name: mod},
                 workers=8, deadlock=False, timeout=1800)
    r3 = run_tlc(name, cfg_text='SPECIFICATION Spec\nCONSTRAINT EmitDone\n'
                 'CHECK_DEADLOCK FALSE\n', extra_modules={name: mod_int},
                 workers=8, deadlock=False, timeout=1800)
    for r in (r1, r2, r3):
        if not r.ok:
            v.violation(f'TLC: {r.violated} on spec/Sched.tla\n'
                        f'{r.error_text[:800]}',
                        {'kind': 'spec', 'inv': str(r.violated)})
    ds = []
    for rr, mode in ((r2, 'frac'), (r3, 'int')):
        for line in rr.stdout.splitlines():
            if line.startswith('"{'):
                try:
                    d = json.loads(json.loads(line))
                except Exception:  # noqa: BLE001
                    continue
                if 'h' in d:
                    d['mode'] = mode
                    ds.append(d)
    n = 48
    res = pmap(chunk, [ds[i::n] for i in range(n) if ds[i::n]])
    for lst in res:
        for msg, d in lst:
            v.violation(f'{msg} :: scheduled={d["scheduled"]} fn={d["fn"]} '
                        f'history={[(x["act"], x["arg"]) for x in d["h"]]}',
                        {'kind': 'replay', 'msg': msg.split(':')[-1][:30]},
                        replay={'d': d})
    # exponential decay averaging: value, range, monotonicity
    from kfac.hyperparams import exp_decay_factor_averaging
    nexp = 0
    for a, b in caps + [(3, 10), (7, 8), (95, 100)]:
        cap = a / b
        f = exp_decay_factor_averaging(cap)
        prev = None
        for k in range(0, 200 if tier == 'quick' else 5000):
            got = f(k)
            m = max(k, 1)
            want = min(Fraction(m - 1, m), Fraction(cap))
            nexp += 1
            if abs(Fraction(got) - want) > Fraction(1, 10 ** 15):
                v.violation(f'exp_decay({cap})({k}) = {got}, spec '
                            f'{float(want)}', {'kind': 'expdecay_value'})
                break
            if not (0 <= got <= cap):
                v.violation(f'exp_decay({cap})({k}) = {got} out of range',
                            {'kind': 'expdecay_range'})
                break
            if prev is not None and got < prev:
                v.violation(f'exp_decay({cap}) decreasing at {k}',
                            {'kind': 'expdecay_monotone'})
                break
            prev = got
        # the schedule is a FUNCTION of the step: the same object evaluated
        # again at earlier steps (a rolled-back or second preconditioner), in
        # descending and in shuffled order, returns the same values
        import random as _r
        ks = list(range(0, 64)) + [100, 1000]
        orders = [list(reversed(ks)), _r.Random(seed).sample(ks, len(ks))]
        for f2, order in ((f, orders[0]), (exp_decay_factor_averaging(cap),
                                           orders[1])):
            for k in order:
                m = max(k, 1)
                want = min(Fraction(m - 1, m), Fraction(cap))
                nexp += 1
                if abs(Fraction(f2(k)) - want) > Fraction(1, 10 ** 15):
                    v.violation(
                        f'exp_decay({cap})({k}) = {f2(k)} when evaluated out '
                        f'of order, spec {float(want)}',
                        {'kind': 'expdecay_purity'})
                    break
    for bad_cap in (0, -1, -0.5):
        try:
            exp_decay_factor_averaging(bad_cap)
            v.violation(f'exp_decay_factor_averaging({bad_cap}) accepted',
                        {'kind': 'expdecay_cap'})
        except ValueError:
            pass
    try:
        exp_decay_factor_averaging(0.5)(-1)
        v.violation('negative step accepted', {'kind': 'expdecay_neg'})
    except ValueError:
        pass
    nontriv = {chash(d) for d in ds if not d['refused']
               and sum(x['act'] == 'sched' for x in d['h']) >= 2}
    v.coverage = {
        'states': max(r1.distinct + r2.distinct + r3.distinct, 1),
        'transitions': max(r1.generated + r2.generated + r3.generated, 1),
        'traces_validated_against_impl': len(ds),
        'samples': [ds[len(ds) // 2]] if ds else ['none'],
        'evaluations': len(ds) + nexp,
        'distinct_nontrivial': len(nontriv),
        'rule': 'every maximal behaviour (depth bound) of Sched.tla replayed; '
                'non-trivial = accepted configuration with >= 2 scheduler steps',
        'exhaustive': True, 'depth': depth, 'args': args,
        'expdecay_points': nexp,
    }
    v.assumptions = ['factor functions are dyadic so float arithmetic is '
                     'exact; intervals stay positive (usage assumption)']
    return v.finish()


def replay(path: str) -> int:
    rec = json.load(open(path))
    msg = replay_one(rec['replay']['d'])
    print(msg)
    return 1 if msg else 0
