"""C12: GPT-NeoX assignment is consistent across the 3-D topology.

spec/GptAssign.tla: row-major (pipe, data, model) coordinates, per-stage
greedy (layers sorted by (cost, name) descending, least loaded stage peer,
lowest rank on ties), inverse worker, factor-gathering rank, gradient source,
gradient workers and the new_group calls each rank makes; the clauses of C12
are invariants model-checked by TLC over all topologies and cost dictionaries
in scope.  Every TLC state is replayed: one real GPTNeoXAssignment per rank
(DeepSpeed topology stub, pretended world recording dist.new_group) and every
public query of every rank is compared; group creation must be identical on
all ranks.
"""

from __future__ import annotations

import json

from harness import gpt
from harness.common import Verdict, chash
from harness.par import pmap

PROP = 'C12'


def chunk(ds: list[dict]) -> list[tuple[str, dict]]:
    out = []
    for d in ds:
        try:
            msg = gpt.check_assign(d)
        except Exception as e:  # noqa: BLE001
            msg = f'exception {type(e).__name__}: {e}'[:300]
        if msg:
            out.append((msg, d))
    return out


def main(tier: str, seed: int) -> int:
    v = Verdict(PROP, tier, seed, 'model_checking')
    if tier == 'quick':
        sc = dict(maxp=2, maxd=3, maxm=3, maxworld=12, maxl=2, costs=[0, 1, 2])
    else:
        sc = dict(maxp=3, maxd=4, maxm=4, maxworld=16, maxl=3, costs=[0, 1, 2])
    r, ds = gpt.gen_assign(ngmode='all_stages', **sc)
    if not r.ok:
        v.violation(f'TLC: {r.violated} on spec/GptAssign.tla\n'
                    f'{r.error_text[:800]}',
                    {'kind': 'spec', 'inv': str(r.violated)})
    if len(ds) != r.distinct:
        raise RuntimeError(f'emitted {len(ds)} != states {r.distinct}')
    n = 64
    res = pmap(chunk, [ds[i::n] for i in range(n) if ds[i::n]])
    drift = 0
    for lst in res:
        for msg, d in lst:
            t = d['topo']
            if msg.startswith('DRIFT'):
                drift += 1
                if drift <= 3:
                    v.note('model-drift: ' + msg[:300])
                continue
            kind = 'new_group' if 'new_group' in msg or 'process groups' in msg \
                else 'query'
            v.violation(f'{msg} :: topo {t} work {d["work"]}',
                        {'kind': kind,
                         'pdm_all_gt1': t['P'] > 1 and t['D'] > 1 and t['M'] > 1},
                        replay={'d': d})
    nontriv = {chash([d['topo'], d['work']]) for d in ds
               if d['topo']['D'] > 1 and d['topo']['M'] > 1
               and any(len(w) >= 2 for w in d['work'])}
    v.coverage = {
        'states': max(r.distinct, 1), 'transitions': max(r.generated, 1),
        'traces_validated_against_impl': len(ds),
        'samples': [ds[len(ds) // 2]] if ds else ['none'],
        'evaluations': len(ds), 'tie_breaking_drift': drift,
        'distinct_nontrivial': len(nontriv),
        'rule': 'one case per TLC state (topology + per-stage cost '
                'dictionaries), every rank constructed; non-trivial = data '
                'and model parallel > 1 and a stage with >= 2 layers',
        'exhaustive': True, 'scope': sc,
    }
    v.assumptions = ['DeepSpeed PipeModelDataParallelTopology replaced by '
                     'harness/stubs/deepspeed (axes pipe, data, model; '
                     'row-major)']
    return v.finish()


def replay(path: str) -> int:
    rec = json.load(open(path))
    msg = gpt.check_assign(rec['replay']['d'])
    print(msg)
    return 1 if msg and not msg.startswith('DRIFT') else 0
