"""C18: GPT-NeoX checkpoints gather and restore every layer factor.

Behaviours of spec/KfacRef.tla over {Train, Step, Save, Load} (strict
iteration discipline; every step boundary after the first factor update as
checkpoint position, compute_inverses on/off) are executed by the real
GPTNeoXKFACPreconditioner on simdist over data x model topologies, in-memory
and with a factor checkpoint directory.  Checked: saving yields on EVERY rank
a state with every layer's factors exactly as held by that layer's inverse
worker (or one file per layer); loading restores them where the layer is
gathered and inverted and recomputes second-order data there; every later
step equals the specification's term (resume as in C09); all ranks take part
in the same collectives (run-time monitors of spec/Comm.tla + TLC over the
extracted programs of save/load runs).
"""

from __future__ import annotations

import json
import os
import shutil
import tempfile
from typing import Any

import torch

from harness import gptrun, kaisa, progs, refreplay, simdist
from harness.common import Verdict, chash
from harness.par import pmap

PROP = 'C18'


def gen_histories(tier: str, seed: int) -> list[list[dict]]:
    depth = 6 if tier == 'quick' else 8
    cfg1 = kaisa.Config(W=1, k=1, prediv=False, F=1, I=2)
    hs, r = refreplay.gen_behaviours(
        cfg1, ['Train', 'Step', 'Save', 'Load'], [1], [-1], depth, 0, seed,
        exhaustive=True, strict=True)
    out = []
    for h in hs:
        if h[-1]['x'].get('raises'):
            continue
        acts = [x['act'] for x in h]
        if 'load' not in acts or 'save' not in acts:
            continue
        # GPT state_dict asserts factors exist: only save after a factor update
        ok = all(not (x['act'] == 'save' and x['arg']
                      and not (x['obs']['aFac']['has'] and x['obs']['gFac']['has']))
                 for x in h)
        if not ok:
            continue
        if acts[acts.index('load'):].count('step') < 1:
            continue
        out.append(h)
    def score(h: list[dict]) -> int:
        s = sum(x['act'] == 'step' for x in h)
        s += 2 * sum(1 for x in h if x['act'] == 'save' and x['arg'])
        s += sum(1 for x in h if x['act'] == 'load')
        return s

    out.sort(key=lambda h: -score(h))
    # alternate compute_inverses on / off and with / without factors
    buckets: dict[tuple, list] = {}
    for h in out:
        # does a load restore factors (state saved with factors after the
        # first update) and is it followed by a step?
        restoring = [i for i, x in enumerate(h)
                     if x['act'] == 'load' and x['obs']['aFac']['has']]
        followed = any('step' in [y['act'] for y in h[i + 1:]]
                       for i in restoring)
        key = (bool(restoring) and followed,
               any(x['act'] == 'load' and x['arg'] for x in h))
        buckets.setdefault(key, []).append(h)
    mixed = []
    while any(buckets.values()):
        for key in sorted(buckets, reverse=True):
            if buckets[key]:
                mixed.append(buckets[key].pop(0))
    return mixed, (r.distinct, r.generated)


def check_dir(cfg: kaisa.Config, h: list[dict], seed: int) -> list[tuple]:
    """Directory mode: one file per layer, restored on the factor workers."""
    issues = []
    d = tempfile.mkdtemp(prefix='verif_gptckpt_')
    try:
        # the checkpoint directory does not exist yet (first checkpoint of a
        # run); one schedule lets rank 0 run ahead of the others
        for k, pol in enumerate((simdist.LazyCompletion(seed),
                                 simdist.RunToBlock(None, lazy=False))):
            sub_d = os.path.join(d, f'ckpt{k}')
            c = kaisa.Config(**{**cfg.to_json(),
                                'gpt': {**cfg.gpt, 'ckpt_dir': sub_d}})
            out = gptrun.replay(c, list(h), seed, pol)
            for m in out['mismatches'][:3]:
                issues.append((f'[directory mode] {m["cat"]} after {m["act"]} '
                               f'(op {m["at"]}): {m["msg"]} [{pol.name}]',
                               {'cat': m['cat'], 'mode': 'dir'}))
        d_last = sub_d
        files = sorted(os.listdir(d_last)) if os.path.isdir(d_last) else []
        want = sorted(gptrun.names_of(cfg.gpt).values())
        if any(x['act'] == 'save' and x['arg'] for x in h) and \
                files != want:
            issues.append((f'[directory mode] files {files}, expected one per '
                           f'layer {want}',
                           {'cat': 'save', 'mode': 'dir'}))
    finally:
        shutil.rmtree(d, ignore_errors=True)
    return issues


def run_case(case: dict[str, Any]) -> dict[str, Any]:
    cfg = kaisa.Config(**case['cfg'])
    h, seed = case['h'], case['seed']
    issues = []
    tl = None
    pols = [simdist.LazyCompletion(seed), simdist.RandomPolicy(seed, 0.4)]
    prog = None
    kcase = None
    stats = {}
    for pol in pols:
        out = gptrun.replay(cfg, h, seed, pol)
        stats = out['stats']
        for m in out['mismatches'][:3]:
            issues.append((f'{m["cat"]} after {m["act"]} (op {m["at"]}): '
                           f'{m["msg"]} [{pol.name}]',
                           {'cat': m['cat'], 'mode': 'mem'}))
        prog = prog or (out['programs'], out['groups'])
        kcase = kcase or out.get('kcase')
    if case.get('dir'):
        issues += check_dir(cfg, h, seed)
    if case.get('tlc') and prog and not issues:
        r = progs.check_programs(prog[0], prog[1], por='lin', workers=1,
                                 name='MC_CommS' + chash(case['cfg']))
        tl = {'distinct': r.distinct, 'generated': r.generated}
        if not r.ok:
            issues.append((f'TLC over the extracted programs: {r.violated}',
                           {'cat': 'tlc', 'inv': str(r.violated)}))
    return {'issues': issues[:5], 'tlc': tl, 'stats': stats, 'kcase': kcase,
            'execs': len(pols) + int(bool(case.get('dir')))}


def main(tier: str, seed: int) -> int:
    v = Verdict(PROP, tier, seed, 'model_checking')
    hs, tlc_counts = gen_histories(tier, seed)
    topos = [(1, 1), (2, 1), (1, 2), (2, 2)] if tier == 'quick' else \
        [(1, 1), (2, 1), (1, 2), (2, 2), (3, 2), (2, 3), (1, 3), (4, 1)]
    n_h = 6 if tier == 'quick' else 40
    cases = []
    i = 0
    for D, M in topos:
        for hi, h in enumerate(hs[:n_h]):
            cfgd = dict(W=D * M, k=1, prediv=False, method='eigen', F=1, I=2,
                        kl_clip=[0.001, 1e9][i % 2], damping=0.05,
                        bucket_cap_mb=[25.0, 0.0][i % 2],
                        gpt={'D': D, 'M': M, 'bias_col': True,
                             'bias_row': bool(i % 3),
                             'model': ['deep', 'simple'][hi % 2]})
            cases.append({'cfg': cfgd, 'h': h, 'seed': seed * 100 + i,
                          'dir': i % 2 == 0, 'tlc': i % 4 == 0})
            i += 1
    # pipeline parallelism: every stage owns its own layers, the saved state
    # of every rank still holds the factors of ALL layers of the model
    # (clipping inactive: with several stages the clip factor is per stage,
    # which no listed property covers)
    # (3 stages over 4 layers: the stages own different numbers of layers)
    ptopos = [(2, 1, 1), (2, 2, 1), (2, 1, 2), (3, 1, 1)] \
        if tier == 'quick' else \
        [(2, 1, 1), (2, 2, 1), (2, 1, 2), (2, 2, 2), (4, 1, 1), (3, 1, 1),
         (3, 2, 1), (3, 1, 2)]
    for P, D, M in ptopos:
        for hi, h in enumerate(hs[:3 if tier == 'quick' else 12]):
            cfgd = dict(W=P * D * M, k=1, prediv=False, method='eigen', F=1,
                        I=2, kl_clip=1e9, damping=0.05,
                        bucket_cap_mb=[25.0, 0.0][i % 2],
                        gpt={'P': P, 'D': D, 'M': M, 'bias_col': True,
                             'bias_row': bool(i % 3), 'model': 'deep'})
            cases.append({'cfg': cfgd, 'h': h, 'seed': seed * 100 + i,
                          'dir': i % 2 == 0, 'tlc': i % 3 == 0})
            i += 1
    outs = pmap(run_case, cases)
    states, trans = tlc_counts
    loads = saves = 0
    for cs, o in zip(cases, outs):
        loads += o['stats'].get('loads', 0)
        saves += o['stats'].get('saves', 0)
        if o['tlc']:
            states += o['tlc']['distinct']
            trans += o['tlc']['generated']
        for what, sig in o['issues']:
            v.violation(f'{what} :: {json.dumps(cs["cfg"])[:260]} history '
                        f'{[(x["act"], x["arg"]) for x in cs["h"]]}', sig,
                        replay={'case': cs})
    # spec/GptDist.tla over the recorded executions: clauses decide,
    # conformance with the derived protocol is reported as drift only
    from harness import gptdist
    kidx = [i for i, o in enumerate(outs) if o.get('kcase')]
    kbad, kdrift, ks, kt = gptdist.check_all([outs[i]['kcase'] for i in kidx])
    states += ks
    trans += kt
    for j, inv in kbad:
        cs = cases[kidx[j]]
        v.violation(
            f'{gptdist.CLAUSE_TEXT[inv]} [TLC: {inv} of GptDist.tla on the '
            f'recorded execution] :: {json.dumps(cs["cfg"])[:260]} history '
            f'{[(x["act"], x["arg"]) for x in cs["h"]]}',
            {'kind': 'clause', 'inv': inv}, replay={'case': cs})
    if kdrift:
        v.note(f'model-drift: {kdrift} executions whose recorded collective '
               'sequence differs from GptDist.tla although every clause '
               'holds on them')
    v.coverage = {
        'gptdist_cases': len(kidx), 'gptdist_drift': kdrift,
        'states': max(states, 1), 'transitions': max(trans, 1),
        'traces_validated_against_impl': sum(o['execs'] for o in outs),
        'samples': [{'cfg': cases[0]['cfg'],
                     'history': [[x['act'], x['arg']] for x in cases[0]['h']]}],
        'evaluations': sum(o['execs'] for o in outs),
        'distinct_nontrivial': len({chash([c['cfg'], [(x['act'], x['arg'])
                                                       for x in c['h']]])
                                    for c in cases
                                    if c['cfg']['gpt']['D'] * c['cfg']['gpt']['M'] > 1}),
        'pipeline_parallel_cases': sum(1 for c in cases
                                       if c['cfg']['gpt'].get('P', 1) > 1),
        'rule': 'cases = topologies x save/load behaviours of KfacRef.tla '
                '(checkpoint at every step boundary after the first factor '
                'update); executed in-memory under 2 schedules and (every '
                'second case) with a factor checkpoint directory; non-trivial '
                '= more than one rank',
        'loads_checked': loads, 'saves_checked': saves,
        'histories_available': len(hs),
    }
    v.assumptions = [
        'DeepSpeed / Megatron stubs (as C11); pipeline stages = 1',
        'a state can only be saved after the first factor update (the '
        'GPT-NeoX state_dict asserts that factors exist)',
        'directory mode: the harness inserts a barrier before a load, as a '
        'restart of the job would (save does not end with a barrier)',
    ]
    return v.finish()


def replay(path: str) -> int:
    rec = json.load(open(path))
    out = run_case(rec['replay']['case'])
    print(out['issues'])
    bad = []
    if out.get('kcase'):
        from harness import gptdist
        bad = gptdist.check_all([out['kcase']])[0]
        print(bad)
    return 1 if out['issues'] or bad else 0
