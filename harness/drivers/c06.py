"""C06: KAISA work assignment is well-formed and identical on every rank.

Spec: spec/KfacAssign.tla -- grid partition (Cols/Rows), greedy placement and
the per-rank views (GridOK, ViewsOK, FlagsOK, InvGreedy) model-checked by TLC
over the argument space (Mode "kaisa": every W <= MaxW, every divisor k,
colocate on/off, every cost dictionary over Costs with <= MaxL layers, for the
ascending order of the column groups and the order the interpreter really
uses), and Mode "wide" (every W up to 64 / 256, every divisor, two cost
patterns).

Binding (A): for every tuple TLC emitted whose group order is the real one, W
real KAISAAssignment objects (one per local_rank, with a recording
group_func) are constructed with the float k/W; every public query of every
rank is compared with the specification's per-rank view; the group_func call
sequence must be the same on every rank.  Acceptance: every k | W must be
accepted by KAISAAssignment (float k/W) and by KFACPreconditioner (float and
enum spelling) -- and fractions that do not give equal groups rejected.
"""

from __future__ import annotations

import json
import warnings
from typing import Any

from harness import assign, simdist
from harness.common import Verdict, chash
from harness.par import pmap

PROP = 'C06'


def divisors(n: int) -> list[int]:
    return [d for d in range(1, n + 1) if n % d == 0]


class Recorder:
    def __init__(self) -> None:
        self.calls: list[tuple[int, ...]] = []

    def __call__(self, ranks: list[int]) -> Any:
        key = tuple(sorted(ranks))
        self.calls.append(key)
        return ('group', key)


def check_tuple(tp: dict[str, Any]) -> str | None:
    """Compare W real KAISAAssignment objects with the spec's views."""
    from kfac.assignment import KAISAAssignment

    t = tp['t']
    W, k = t['W'], t['k']
    work = assign.work_dict(t['work'])
    objs = []
    recs = []
    for r in range(W):
        rec = Recorder()
        try:
            a = KAISAAssignment(
                {n: dict(fs) for n, fs in work.items()}, local_rank=r,
                world_size=W, grad_worker_fraction=k / W, group_func=rec,
                colocate_factors=t['colocate'])
        except Exception as e:  # noqa: BLE001
            return f'rejected: W={W} k={k} frac={k / W!r}: {type(e).__name__}: {e}'
        objs.append(a)
        recs.append(rec)
    for r in range(1, W):
        if recs[r].calls != recs[0].calls:
            return f'group creation order differs: rank0 {recs[0].calls} rank{r} {recs[r].calls}'
    p = W // k
    cols = {tuple(range(i, W, p)) for i in range(p)}
    rows = {tuple(range(i * p, (i + 1) * p)) for i in range(k)}
    if set(recs[0].calls) != cols | rows or \
            len(recs[0].calls) != len(cols | rows):
        return f'groups created {recs[0].calls} != grid {sorted(cols | rows)}'
    names = [l['name'] for l in t['work']]
    # inverse workers: the specification's (same tie-breaking as the pinned
    # code) or, if they differ, ANY valid outcome of the greedy rule -- then
    # the per-rank views are derived from the code's own inverse workers
    code_inv = {l['name']: {x['f']: objs[0].inv_worker(l['name'], x['f'])
                            for x in l['fs']} for l in t['work']}
    spec_inv = {l['name']: {x['f']: tp['asg'][i][j]
                            for j, x in enumerate(l['fs'])}
                for i, l in enumerate(t['work'])}
    drift = False
    if code_inv != spec_inv:
        groups = [list(g) for g in t['groups']]
        if not assign.valid_greedy(work, groups, W, t['colocate'], code_inv):
            return (f'rank 0: inverse workers {code_inv} are not an outcome of '
                    f'the greedy rule (spec {spec_inv})')
        drift = True
    exp_gw, exp_src = [], []
    for i, l in enumerate(t['work']):
        ws = set(code_inv[l['name']].values())
        colsets = [c for c in cols if ws <= set(c)]
        if ws and len(colsets) != 1:
            return f'inverse workers of {l["name"]} {ws} span gradient-worker groups'
        col = set(colsets[0]) if colsets else (set(next(iter(cols))))
        exp_gw.append([x in col for x in range(W)])
        exp_src.append([next(iter(col & set(range((x // p) * p, (x // p + 1) * p))))
                        for x in range(W)])
    if not drift:
        exp_gw, exp_src = tp['gw'], tp['src']
    for r, a in enumerate(objs):
        if list(a.get_layers()) != names:
            return f'rank {r}: layers {a.get_layers()}'
        if a.broadcast_gradients() != (k < W):
            return f'rank {r}: broadcast_gradients={a.broadcast_gradients()}'
        if a.broadcast_inverses() != (k > 1):
            return f'rank {r}: broadcast_inverses={a.broadcast_inverses()}'
        for i, l in enumerate(t['work']):
            n = l['name']
            if list(a.get_factors(n)) != [x['f'] for x in l['fs']]:
                return f'rank {r}: factors of {n}'
            for j, x in enumerate(l['fs']):
                if a.inv_worker(n, x['f']) != code_inv[n][x['f']]:
                    return (f'rank {r}: inv_worker({n},{x["f"]})='
                            f'{a.inv_worker(n, x["f"])} but rank 0 derives '
                            f'{code_inv[n][x["f"]]}')
            if a.is_grad_worker(n) != exp_gw[i][r]:
                return f'rank {r}: is_grad_worker({n})={a.is_grad_worker(n)}'
            if a.src_grad_worker(n) != exp_src[i][r]:
                return (f'rank {r}: src_grad_worker({n})='
                        f'{a.src_grad_worker(n)} expected {exp_src[i][r]}')
            gw = a.grad_worker_group(n)
            col = tuple(x for x in range(W) if exp_gw[i][x])
            if gw != ('group', col):
                return f'rank {r}: grad_worker_group({n})={gw} expected {col}'
            gr = a.grad_receiver_group(n)
            row = tuple(range((r // p) * p, (r // p + 1) * p))
            if gr != ('group', row):
                return f'rank {r}: grad_receiver_group({n})={gr} expected {row}'
            if a.factor_group(n, 'A') is not None:
                return f'rank {r}: factor_group is not the world'
    return None


def replay_chunk(tps: list[dict[str, Any]]) -> list[tuple[str, dict]]:
    out = []
    for tp in tps:
        msg = check_tuple(tp)
        if msg:
            out.append((msg, tp))
    return out


def acceptance_chunk(pairs: list[tuple[int, int]]) -> list[dict[str, Any]]:
    """Every k | W accepted; through KAISAAssignment and KFACPreconditioner."""
    import torch
    from kfac.assignment import KAISAAssignment
    from kfac.enums import DistributedStrategy
    from kfac.preconditioner import KFACPreconditioner

    out = []
    for W, k in pairs:
        work = {'l1': {'A': 3.0, 'G': 1.0}, 'l2': {'A': 2.0, 'G': 2.0}}
        try:
            KAISAAssignment(work, local_rank=W - 1, world_size=W,
                            grad_worker_fraction=k / W,
                            group_func=lambda ranks: None)
        except Exception as e:  # noqa: BLE001
            out.append({'W': W, 'k': k, 'via': 'KAISAAssignment',
                        'err': f'{type(e).__name__}: {e}'[:200]})
        spellings: list[tuple[str, Any]] = [('float', k / W)]
        if k == W:
            spellings.append(('enum', DistributedStrategy.COMM_OPT))
        if k == 1:
            spellings.append(('enum', DistributedStrategy.MEM_OPT))
            spellings.append(('zero', 0))
        if 2 * k == W:
            spellings.append(('enum', DistributedStrategy.HYBRID_OPT))
        for sp, frac in spellings:
            model = torch.nn.Sequential(torch.nn.Linear(3, 2),
                                        torch.nn.Linear(2, 2))
            try:
                # the per-rank view the preconditioner really uses must be
                # the view of THIS global rank (the pretended world carries
                # the environment of a two-node launch, where the node-local
                # rank differs from the global rank)
                rs = range(W) if W <= 8 else sorted({0, W // 2, W - 1})
                p = W // k
                for r in rs:
                    with simdist.SoloWorld(r, W) as sw:
                        with warnings.catch_warnings():
                            warnings.simplefilter('ignore')
                            pre = KFACPreconditioner(
                                model, grad_worker_fraction=frac)
                    a = pre._assignment
                    if a.grad_workers != k:
                        out.append({'W': W, 'k': k, 'via': f'precond/{sp}',
                                    'err': f'grad_workers={a.grad_workers}'})
                        break
                    err = None
                    for n in a.get_layers():
                        iw = {a.inv_worker(n, f) for f in a.get_factors(n)}
                        cols = {w % p for w in iw}
                        if len(cols) != 1:
                            err = f'inverse workers of {n} span groups: {iw}'
                            break
                        col = next(iter(cols))
                        gw = (r % p == col)
                        src = (r // p) * p + col
                        if a.is_grad_worker(n) != gw:
                            err = (f'rank {r}: is_grad_worker({n})='
                                   f'{a.is_grad_worker(n)} expected {gw}')
                        elif a.src_grad_worker(n) != src:
                            err = (f'rank {r}: src_grad_worker({n})='
                                   f'{a.src_grad_worker(n)} expected {src}')
                        elif r not in simdist.group_ranks_of(
                                a.grad_receiver_group(n), W):
                            err = f'rank {r}: not in its own receiver group'
                        if err:
                            break
                    if err:
                        out.append({'W': W, 'k': k, 'via': f'precond-view/{sp}',
                                    'err': err})
                        break
            except Exception as e:  # noqa: BLE001
                out.append({'W': W, 'k': k, 'via': f'KFACPreconditioner/{sp}',
                            'err': f'{type(e).__name__}: {e}'[:200]})
    return out


def rejection_cases() -> list[str]:
    """Fractions that do not give equal groups must be rejected."""
    import torch
    from kfac.assignment import KAISAAssignment
    from kfac.preconditioner import KFACPreconditioner

    bad = []
    for W, frac in [(8, 0.33), (4, 0.3), (6, 0.25), (3, 0.5), (4, 0.75),
                    (8, 0.375), (5, 0.5)]:
        try:
            KAISAAssignment({'l': {'A': 1, 'G': 1}}, local_rank=0,
                            world_size=W, grad_worker_fraction=frac,
                            group_func=lambda r: None)
            bad.append(f'KAISAAssignment accepted W={W} frac={frac}')
        except ValueError:
            pass
        try:
            with simdist.SoloWorld(0, W):
                KFACPreconditioner(torch.nn.Linear(2, 2),
                                   grad_worker_fraction=frac)
            bad.append(f'KFACPreconditioner accepted W={W} frac={frac}')
        except ValueError:
            pass
    return bad


def main(tier: str, seed: int) -> int:
    from concurrent.futures import ThreadPoolExecutor

    v = Verdict(PROP, tier, seed, 'model_checking')
    if tier == 'quick':
        maxw, maxl, costs, widew, accw = 4, 3, [0, 1, 2], 32, 256
    else:
        maxw, maxl, costs, widew, accw = 6, 3, [0, 1, 2, 3], 96, 512
    pairs = [(W, k) for W in range(1, maxw + 1) for k in divisors(W)]
    wpairs = [(W, k) for W in range(1, widew + 1) for k in divisors(W)]
    orders = assign.real_orders(pairs)
    worders = assign.real_orders(wpairs)
    with ThreadPoolExecutor(max_workers=2) as ex:
        f1 = ex.submit(assign.run_assign, 'kaisa', maxw, maxl, costs, orders,
                       (2,), 8, 7200)
        f2 = ex.submit(assign.run_assign, 'wide', widew, 3, [0], worders,
                       (2,), 6, 7200)
        (r1, t1), (r2, t2) = f1.result(), f2.result()
    for r, nm in ((r1, 'kaisa'), (r2, 'wide')):
        if not r.ok:
            v.violation(f'TLC: {r.violated} on spec/KfacAssign.tla ({nm})\n'
                        f'{r.error_text[:1500]}',
                        {'kind': 'spec', 'inv': str(r.violated)})
    if len(t1) != r1.distinct or len(t2) != r2.distinct:
        raise RuntimeError('emitted tuples != TLC states')
    allo = dict(orders)
    allo.update(worders)
    todo = [tp for tp in t1 + t2
            if [list(g) for g in tp['t']['groups']] ==
            allo[(tp['t']['W'], tp['t']['k'])]]
    spec_only = len(t1) + len(t2) - len(todo)
    chunks = [todo[i::64] for i in range(64)]
    res = pmap(replay_chunk, [c for c in chunks if c])
    nbad = 0
    for lst in res:
        for msg, tp in lst:
            nbad += 1
            t = tp['t']
            head = msg.split(':')[0]
            sig = {'kind': 'replay', 'msg': head}
            if head == 'rejected':
                sig = {'kind': 'rejected', 'W': t['W'], 'k': t['k']}
            v.violation(f'{msg} on {json.dumps(t)[:300]}', sig,
                        replay={'tuple': tp})
    # every rank is its own interpreter: results must not depend on the string
    # hash seed (tie-rich tuples with >= 2 layers)
    def ties(tp):
        tot = [sum(x['c'] for x in l['fs']) for l in tp['t']['work']]
        return len(tot) >= 2 and len(set(tot)) < len(tot) and tp['t']['W'] <= 8
    tt = [tp for tp in todo if ties(tp)]
    import random as _r
    _r.Random(seed).shuffle(tt)
    msg = assign.cross_interpreter(tt[:150 if tier == 'quick' else 2000])
    if msg:
        v.violation(msg, {'kind': 'hashseed'})
    # acceptance through the constructors for all pairs in the wide scope
    apairs = [(W, k) for W in range(1, accw + 1) for k in divisors(W)]
    acc = pmap(acceptance_chunk, [apairs[i::32] for i in range(32)])
    nacc = len(apairs)
    for lst in acc:
        for b in lst:
            v.violation(
                f'valid fraction k/W rejected or mis-handled: {b}',
                {'kind': 'rejected', 'W': b['W'], 'k': b['k']},
                replay=b)
    for b in rejection_cases():
        v.violation(b, {'kind': 'accepted_invalid', 'msg': b})
    nontrivial = {chash(tp['t']) for tp in todo
                  if len(tp['t']['work']) >= 2 and 1 < tp['t']['k'] < tp['t']['W']}
    v.coverage = {
        'states': r1.distinct + r2.distinct,
        'transitions': r1.generated + r2.generated,
        'traces_validated_against_impl': len(todo),
        'samples': [todo[len(todo) // 3]] if todo else ['none'],
        'evaluations': len(todo) + nacc,
        'distinct_nontrivial': len(nontrivial),
        'rule': 'every TLC state whose group order is the interpreter\'s '
                'real one is replayed into W KAISAAssignment objects; '
                'non-trivial = >= 2 layers and a HYBRID grid (1 < k < W)',
        'exhaustive': True,
        'spec_only_tuples': spec_only,
        'scope': {'small': {'W<=': maxw, 'layers<=': maxl, 'costs': costs},
                  'wide': {'W<=': widew, 'patterns': 2},
                  'acceptance_pairs': nacc, 'acceptance_W<=': accw},
    }
    v.assumptions = [
        'iteration order of a set of frozensets of small ints is a pure '
        'function of its contents (same on every rank); the order the '
        'interpreter uses is supplied to the spec as the constant KaisaOrders',
    ]
    return v.finish()


def replay(path: str) -> int:
    rec = json.load(open(path))
    rp = rec['replay']
    if 'tuple' in rp:
        msg = check_tuple(rp['tuple'])
    else:
        msg = str(acceptance_chunk([(rp['W'], rp['k'])]))
    print(msg)
    return 1 if msg and msg != '[]' else 0
