"""C11: model-parallel sharding is transparent to GPT-NeoX preconditioning.

The reference is spec/KfacRef.tla: the behaviours TLC generates (strict
iteration discipline; several steps, F != I, accumulation, eval passes) are
executed by the real GPTNeoXKFACPreconditioner on simdist with Megatron-style
column-/row-parallel layers sharded over M model-parallel ranks and D
data-parallel replicas (DeepSpeed topology stub).  Terms are interpreted on
the UNSHARDED layers over the union batch: after every step the shards of
every rank, assembled, must equal the unsharded layer's gradient (clipping
included); factors on the inverse worker must equal the unsharded factors;
results are bit-identical across data-parallel replicas and, for replicated
parameters, across model-parallel peers, and across scheduling policies; the
communication invariants of spec/Comm.tla are monitored at run time and
model-checked by TLC over the extracted per-rank programs.
"""

from __future__ import annotations

import json
from typing import Any

from harness import analyze, gptrun, kaisa, progs, refreplay, simdist
from harness.common import Verdict, chash
from harness.par import pmap

PROP = 'C11'


def gen_histories(tier: str, seed: int) -> list[dict[str, Any]]:
    fams = [
        dict(F=1, I=1, accum=1, in_hook=True),
        dict(F=1, I=2, accum=1, in_hook=False),
        dict(F=2, I=2, accum=2, in_hook=True, damping='damp_lin'),
    ]
    out = []
    depth = 6 if tier == 'quick' else 8
    for f in fams:
        cfg1 = kaisa.Config(W=1, k=1, prediv=False, **f)
        hs, r = refreplay.gen_behaviours(
            cfg1, ['Train', 'Step', 'Eval'], [f['accum']], [-1], depth, 0,
            seed, exhaustive=True, strict=True)
        hs = [h for h in hs if not h[-1]['x'].get('raises')
              and sum(x['act'] == 'step' for x in h) >= 2]
        hs.sort(key=lambda h: -sum(x['act'] == 'step' for x in h))
        out.append({'hp': f, 'hs': hs[:4], 'tlc': (r.distinct, r.generated)})
    # a long history with a fast-decaying running average: the factors are
    # dominated by the data, shards become correlated and the per-shard
    # contributions to <V, D> can have opposite signs
    f = dict(F=1, I=1, accum=1, in_hook=True, decay=0.3)
    cfg1 = kaisa.Config(W=1, k=1, prediv=False, **f)
    hs, r = refreplay.gen_behaviours(
        cfg1, ['Train', 'Step'], [1], [-1], 16 if tier == 'quick' else 24, 0,
        seed, exhaustive=True, strict=True)
    hs = [h for h in hs if not h[-1]['x'].get('raises')]
    hs.sort(key=lambda h: -sum(x['act'] == 'step' for x in h))
    out.append({'hp': f, 'hs': hs[:1], 'tlc': (r.distinct, r.generated),
                'long': True})
    return out


def run_case(case: dict[str, Any]) -> dict[str, Any]:
    cfg = kaisa.Config(**case['cfg'])
    h, seed = case['h'], case['seed']
    g = cfg.gpt
    W = g['D'] * g['M']
    issues = []
    ref = None
    prog = None
    kcase = None
    clip_active = False
    pols = [simdist.LazyCompletion(seed), simdist.RandomPolicy(seed, 0.4)]
    if case.get('one_policy'):
        pols = pols[:1]
    if case.get('more_policies'):
        pols.append(simdist.EagerCompletion(list(reversed(range(W)))))
    if case.get('craft'):
        # adversarial gradients: a shard whose contribution to the clip sum
        # is negative (found from the factors of a first execution)
        ex0 = gptrun.execute(cfg, h, seed, pols[0])
        if not any(ex0['errors']):
            cg = gptrun.craft_opposite_sign_grads(cfg, h, ex0, seed)
            if cg:
                cfg = kaisa.Config(**{**case['cfg'], 'gpt': {
                    **case['cfg']['gpt'], 'craft_grads': cg}})
    crafted = len(cfg.gpt.get('craft_grads') or {})
    for pol in pols:
        out = gptrun.replay(cfg, h, seed, pol)
        clip_active = clip_active or out['stats'].get('nu_active', 0) > 0
        for m in out['mismatches'][:3]:
            issues.append((
                f'{m["cat"]} after {m["act"]} (op {m["at"]}): {m["msg"]} '
                f'[{pol.name}]',
                {'cat': m['cat'], 'mp': g['M'] > 1,
                 'clip_active': bool(out['stats'].get('nu_active', 0) > 0)}))
        sg = out['step_grads']
        if ref is None:
            ref = sg
            prog = (out['programs'], out['groups'])
            kcase = out.get('kcase')
        elif sg.get(0) and ref.get(0):
            same = all(analyze.grads_bitwise_equal(a, b)
                       for r in range(W)
                       for a, b in zip(ref[r], sg[r]))
            if not same:
                issues.append((f'gradients depend on the schedule [{pol.name}]',
                               {'cat': 'schedule', 'mp': g['M'] > 1,
                                'clip_active': clip_active}))
            if progs.strip(out['programs']) != progs.strip(prog[0]):
                issues.append(('communication programs depend on the schedule',
                               {'cat': 'program_schedule'}))
    tl = None
    if case.get('tlc') and prog is not None and not issues:
        r = progs.check_programs(prog[0], prog[1], por='lin', workers=1,
                                 name='MC_CommG' + chash(case['cfg']))
        tl = {'ok': r.ok, 'violated': r.violated, 'distinct': r.distinct,
              'generated': r.generated}
        if not r.ok:
            issues.append((f'TLC over extracted GPT programs: {r.violated}',
                           {'cat': 'tlc', 'inv': str(r.violated)}))
    return {'issues': issues[:5], 'tlc': tl, 'execs': len(pols),
            'crafted': crafted,
            'kcase': kcase}


def cases_for(tier: str, seed: int, hists: list[dict]) -> list[dict]:
    topos = [(1, 2), (2, 1), (2, 2), (1, 3)] if tier == 'quick' else \
        [(1, 2), (2, 1), (2, 2), (1, 3), (3, 2), (2, 3), (1, 1), (3, 1), (4, 2)]
    cases = []
    i = 0
    longs = [h for h in hists if h.get('long')]
    hists = [h for h in hists if not h.get('long')]
    for fam in longs:
        for j, (D, M, bc, br, gm) in enumerate(
                [(1, 2, False, False, 'col1'), (1, 2, True, True, 'simple'),
                 (2, 2, False, True, 'row1'), (1, 3, False, False, 'col1'),
                 (1, 2, False, False, 'row1'), (2, 2, False, False, 'col1')]
                * (1 if tier == 'quick' else 3)):
            if not fam['hs']:
                continue
            cfgd = dict(W=D * M, k=1, prediv=False, method='eigen',
                        kl_clip=1e-6, damping=0.01, bucket_cap_mb=25.0,
                        symmetry=False,
                        gpt={'D': D, 'M': M, 'bias_col': bc, 'bias_row': br,
                             'model': gm})
            cfgd.update(fam['hp'])
            cases.append({'cfg': cfgd, 'h': fam['hs'][0],
                          'seed': seed * 100 + 50 + j, 'tlc': False,
                          'more_policies': False, 'one_policy': True,
                          'craft': True})
    for D, M in topos:
        for bc, br in [(True, True), (False, True), (True, False),
                       (False, False)]:
            for kl in (1e9, 1e-6):
                fam = hists[i % len(hists)]
                if not fam['hs']:
                    continue
                h = fam['hs'][(i // len(hists)) % len(fam['hs'])]
                cfgd = dict(W=D * M, k=1, prediv=False, method='eigen',
                            kl_clip=kl, damping=0.05,
                            bucket_cap_mb=[25.0, 0.0, 0.00004][i % 3],
                            symmetry=bool(i % 2),
                            gpt={'D': D, 'M': M, 'bias_col': bc,
                                 'bias_row': br,
                                 'model': ['simple', 'deep'][(i // 2) % 2]})
                cfgd.update(fam['hp'])
                cases.append({'cfg': cfgd, 'h': h, 'seed': seed * 100 + i,
                              'tlc': i % 3 == 0, 'more_policies': i % 4 == 0})
                i += 1
    return cases


def main(tier: str, seed: int) -> int:
    v = Verdict(PROP, tier, seed, 'model_checking')
    hists = gen_histories(tier, seed)
    cases = cases_for(tier, seed, hists)
    outs = pmap(run_case, cases)
    states = sum(h['tlc'][0] for h in hists)
    trans = sum(h['tlc'][1] for h in hists)
    for cs, o in zip(cases, outs):
        for what, sig in o['issues']:
            v.violation(f'{what} :: {json.dumps(cs["cfg"])[:300]}', sig,
                        replay={'case': cs})
        if o['tlc']:
            states += o['tlc']['distinct']
            trans += o['tlc']['generated']
    # design level: the protocol derived by spec/GptDist.tla satisfies its
    # clauses and never stalls, for every topology / layer list in scope
    from harness import gptdist as _gd
    if tier == 'quick':
        dcs = _gd.design_cases(2, 3, 2, limit=80, seed=seed) + \
            _gd.design_cases(2, 2, 2, limit=20, seed=seed, P=2)
    else:
        dcs = (_gd.design_cases(3, 3, 1)
               + _gd.design_cases(3, 3, 2, limit=4000, seed=seed)
               + _gd.design_cases(2, 2, 3, limit=2000, seed=seed)
               + _gd.design_cases(2, 2, 2, limit=1500, seed=seed, P=2)
               + _gd.design_cases(2, 2, 3, limit=500, seed=seed, P=3))
    dbad, dstates, dtrans = _gd.check_design(dcs)
    states += dstates
    trans += dtrans
    for j in dbad[:5]:
        v.violation('spec/GptDist.tla: DesignOK fails on the derived protocol '
                    f':: {json.dumps({k: x for k, x in dcs[j].items() if k not in ("trace", "ngtrace", "hist")})[:400]}',
                    {'kind': 'spec', 'inv': 'DesignOK'})
    # spec/GptDist.tla over the recorded executions: clauses decide,
    # conformance with the derived protocol is reported as drift only
    from harness import gptdist
    kidx = [i for i, o in enumerate(outs) if o.get('kcase')]
    kbad, kdrift, ks, kt = gptdist.check_all([outs[i]['kcase'] for i in kidx])
    states += ks
    trans += kt
    for j, inv in kbad:
        cs = cases[kidx[j]]
        v.violation(
            f'{gptdist.CLAUSE_TEXT[inv]} [TLC: {inv} of GptDist.tla on the '
            f'recorded execution] :: {json.dumps(cs["cfg"])[:260]} history '
            f'{[(x["act"], x["arg"]) for x in cs["h"]]}',
            {'kind': 'clause', 'inv': inv}, replay={'case': cs})
    if kdrift:
        v.note(f'model-drift: {kdrift} executions whose recorded collective '
               'sequence differs from GptDist.tla although every clause '
               'holds on them')
    v.coverage = {
        'gptdist_cases': len(kidx), 'gptdist_drift': kdrift,
        'gptdist_design_cases': len(dcs),
        'steps_with_crafted_opposite_sign_gradients': sum(o.get('crafted', 0) for o in outs),
        'states': max(states, 1), 'transitions': max(trans, 1),
        'traces_validated_against_impl': sum(o['execs'] for o in outs),
        'samples': [{'cfg': cases[0]['cfg'],
                     'history': [[x['act'], x['arg']] for x in cases[0]['h']]}],
        'evaluations': sum(o['execs'] for o in outs),
        'distinct_nontrivial': len({chash(c['cfg']) for c in cases
                                    if c['cfg']['gpt']['M'] > 1}),
        'rule': 'cases = (D, M) topologies x bias on/off per layer kind x '
                'clip active/inactive x bucket capacity class x reference '
                'behaviours; each executed under 2-3 schedules; non-trivial = '
                'model-parallel degree > 1',
        'cases': len(cases),
        'tlc_program_checks': sum(1 for o in outs if o['tlc']),
    }
    v.assumptions = [
        'DeepSpeed / Megatron replaced by harness stubs: topology grid, '
        'PipelineModule, ColumnParallelLinear / RowParallelLinear with '
        'driver-owned model-parallel collectives (part of the trusted base)',
        'pipeline stages = 1 for value-level runs (C12 covers P > 1)',
    ]
    return v.finish()


def replay(path: str) -> int:
    rec = json.load(open(path))
    out = run_case(rec['replay']['case'])
    print(out['issues'])
    bad = []
    if out.get('kcase'):
        from harness import gptdist
        bad = gptdist.check_all([out['kcase']])[0]
        print(bad)
    return 1 if out['issues'] or bad else 0
