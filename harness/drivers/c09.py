"""C09: checkpoints round-trip and resuming is equivalent to never stopping.

spec/KfacRef.tla: Save / Load-into-a-fresh-machine actions, RoundTrip action
property, and -- through the symbolic terms -- what second-order data every
later step uses (the live one, or Inv(restored factors, damping at load)).
TLC enumerates every maximal path over {Train, Step, Save, Load, (Eval)} to a
depth, so every step boundary of every run is used as checkpoint position,
with/without factors, compute_inverses on/off; each behaviour is replayed into
the real code (fresh model copy + fresh preconditioner at every load, state
serialised through torch.save/torch.load) at W = 1 and on W in {2,4} simulated
ranks under all strategies.  After a load: step count, scalar
hyper-parameters and factors must be restored exactly (bit-wise), second-order
data must exist exactly on the gradient workers iff the specification says it
was recomputed, the number of decompositions must match the assignment, and
every later step's gradients must equal the specification's term.  A state
with a different number of layers must be rejected.
"""

from __future__ import annotations

import json
from typing import Any

import torch

from harness import kaisa, refreplay, reffam
from harness.common import Verdict

PROP = 'C09'
CATS = None


def families(tier: str) -> list[dict]:
    quick = tier == 'quick'
    d = 5 if quick else 7
    base = dict(W=1, k=1, model='mlp2', damping=0.05)
    fams = []
    gens = [
        dict(method='eigen', prediv=True, F=1, I=1, in_hook=True),
        dict(method='eigen', prediv=False, F=1, I=3, in_hook=True,
             damping='damp_lin'),
        dict(method='inverse', prediv=False, F=2, I=2, in_hook=False),
        dict(method='eigen', prediv=True, F=1, I=2, in_hook=True, accum=2,
             sched={'damping': 'half', 'inv_update_steps': 'dbl_after1'}),
        # damping baked into the second-order data, varying with the step:
        # a load must recompute with the RESTORED step count / damping
        dict(method='inverse', prediv=False, F=1, I=3, in_hook=True,
             damping='damp_lin', model='featcls'),
        dict(method='eigen', prediv=True, F=1, I=2, in_hook=False,
             damping='damp_lin', model='mixb'),
        # the fresh preconditioner is constructed with OTHER constants
        dict(method='inverse', prediv=False, F=1, I=2, in_hook=True,
             fresh_perturb=True),
        dict(method='eigen', prediv=True, F=2, I=3, in_hook=True,
             fresh_perturb=True, model='mlp2nb'),
        # the state is kept as a live in-memory object while training goes on
        # (work lost by the crash) and that very object is loaded later
        dict(method='eigen', prediv=True, F=1, I=2, in_hook=True,
             inmem_ckpt=True, model='featcls'),
        dict(method='inverse', prediv=False, F=2, I=2, in_hook=False,
             inmem_ckpt=True, fresh_perturb=True),
    ]
    for i, g in enumerate(gens):
        c = dict(base, **g)
        alpha = ['Train', 'Step', 'Save', 'Load']
        if 'sched' in g:
            alpha.append('Sched')
        if i < 4:
            fams.append(reffam.fam(c, alpha, d,
                                   micro=sorted({c.get('accum', 1)})))
        else:
            # deeper, with factors in the state and inverses recomputed: the
            # step after the load (a non-refresh step) is reached
            fams.append(reffam.fam(c, alpha, d + 2,
                                   micro=sorted({c.get('accum', 1)}),
                                   save_args=(True,), load_args=(True,)))
    # distributed (strict discipline): every strategy
    worlds = [dict(W=2, k=1), dict(W=2, k=2),
              dict(W=4, k=2, bucket_cap_mb=0.0),
              dict(W=4, k=4, symmetry=True), dict(W=4, k=1),
              dict(W=4, k=2, colocate=False, prediv=False)]
    for g in (gens[0], gens[1], gens[2], gens[6], gens[8]):
        c = dict(base, **{**g, 'model': 'mlp3'})
        rcs = [dict(c, **w) for w in worlds if not (
            w.get('colocate') is False and c.get('prediv'))]
        fams.append(reffam.fam(c, ['Train', 'Step', 'Save', 'Load'], d + 2,
                               strict=True, replay_cfgs=rcs,
                               save_args=(True,), load_args=(True, False)
                               if g is gens[0] else (True,)))
    # marathons: long behaviours with several checkpoint / resume cycles
    # (single process and on a 2-rank world)
    quick = tier == 'quick'
    L = 44 if quick else 100
    mz = dict(base, method='inverse', prediv=False, F=2, I=3, in_hook=True,
              accum=1, damping='damp_lin', decay='expdecay',
              fresh_perturb=True)
    fams.append(reffam.fam(mz, ['Train', 'Step', 'Save', 'Load'], L,
                           exhaustive=False, num=3 if quick else 40,
                           spec_depth=5, save_args=(True,),
                           load_args=(True,)))
    # a long-running job with callable intervals resumed into a fresh
    # preconditioner (the step counter is far beyond the first steps)
    cz = dict(base, method='eigen', prediv=False, F='int_1_2', I='int_2_1',
              in_hook=True, accum=1, steps0=64)
    fams.append(reffam.fam(cz, ['Train', 'Step', 'Save', 'Load'],
                           8 if quick else 10, save_args=(True,),
                           load_args=(True,)))
    mw = dict(base, method='eigen', prediv=False, F=1, I=4, in_hook=False,
              accum=1, model='mlp3')
    fams.append(reffam.fam(mw, ['Train', 'Step', 'Save', 'Load'], L,
                           exhaustive=False, num=2 if quick else 24,
                           spec_depth=5, strict=True,
                           replay_cfgs=[dict(mw, W=2, k=1),
                                        dict(mw, W=2, k=2)],
                           save_args=(True,), load_args=(True,)))
    return fams


def check_resume(cfgd: dict, depth: int, invs: list[str]) -> Any:
    """TLC on spec/KfacResume.tla (self-composition: resumed vs uninterrupted)."""
    import os
    from harness.progs import instantiate
    from harness.tlc import run_tlc, SPEC_DIR

    cfg = kaisa.Config(**cfgd)
    inst = 'MC_KfacRefR'
    mod = instantiate('KfacRef', inst, refreplay.ref_constants(
        cfg, ['Train', 'Step', 'Eval', 'Save', 'Load'], [cfg.accum], [-1],
        depth, False))
    res = open(os.path.join(SPEC_DIR, 'KfacResume.tla')).read().replace(
        'KFACREF_INSTANCE', inst).replace('MODULE KfacResume',
                                          'MODULE MC_KfacResume')
    cfgt = 'SPECIFICATION RSpec\nVIEW rview\n' + ''.join(
        f'INVARIANT {i}\n' for i in invs) + 'CHECK_DEADLOCK FALSE\n'
    return run_tlc('MC_KfacResume', cfg_text=cfgt,
                   extra_modules={inst: mod, 'MC_KfacResume': res},
                   workers=4, deadlock=False, timeout=1800)


def rejection() -> list[str]:
    """A state with a different number of layers is rejected."""
    bad = []
    for method in ('eigen', 'inverse'):
        a = kaisa.RankRun(kaisa.Config(model='mlp3', method=method,
                                       prediv=False), 0, 0)
        b = kaisa.RankRun(kaisa.Config(model='mlp2', method=method,
                                       prediv=False), 0, 0)
        a.apply(['train', 1])
        a.apply(['step'])
        sd = a.pre.state_dict()
        try:
            b.pre.load_state_dict(sd)
            bad.append(f'{method}: state with 3 layers loaded into a '
                       f'preconditioner with 2 layers')
        except ValueError:
            pass
    return bad


def main(tier: str, seed: int) -> int:
    v = Verdict(PROP, tier, seed, 'model_checking')
    fams = families(tier)
    def prefer(h: list[dict]) -> int:
        acts = [x['act'] for x in h]
        score = 0
        for i, a in enumerate(acts):
            if a == 'load':
                score += 1 + 3 * acts[i + 1:].count('step')
        return score

    agg = reffam.run_families(
        fams, seed, max_replay=200 if tier == 'quick' else 5000,
        prefer=prefer)
    reffam.report(v, agg, fams, CATS)
    # design level: resumed == uninterrupted under the stated condition
    rs_states = 0
    rfams = [dict(F=1, I=1), dict(F=1, I=3, damping='damp_lin'),
             dict(F=2, I=2, in_hook=False), dict(F=1, I=2, accum=2),
             dict(F=2, I=3, method='inverse', damping='damp_lin'),
             dict(F='int_1_2', I='int_2_1')]
    from concurrent.futures import ThreadPoolExecutor
    dres = 8 if tier == 'quick' else 10
    with ThreadPoolExecutor(max_workers=4) as ex:
        rres = list(ex.map(lambda f: check_resume(
            f, dres, ['ResumeEq', 'NoNewRaise']), rfams))
    for f, r in zip(rfams, rres):
        rs_states += r.distinct
        if not r.ok:
            v.violation(f'TLC: KfacResume {r.violated} violated for {f} '
                        f'(actions: {[s["_action"][:24] for s in r.trace]})',
                        {'kind': 'spec', 'prop': str(r.violated)})
    vac = check_resume(rfams[1], 7, ['NeverYes'])
    vac2 = check_resume(rfams[1], 7, ['NeverNo'])
    if vac.ok or vac2.ok:
        raise RuntimeError('KfacResume: condition outcome unreachable (vacuity)')
    for b in rejection():
        v.violation(b, {'cat': 'rejection', 'msg': b.split(':')[0]})
    v.coverage['states'] += rs_states
    v.coverage['kfacresume_states'] = rs_states
    v.coverage['distinct_nontrivial'] = int(agg['stats'].get('loads', 0))
    v.coverage['rule'] = (
        'behaviours over {Train, Step, Save, Load} replayed into the real '
        'code; distinct_nontrivial = load operations performed and compared '
        '(each at a distinct checkpoint position / history prefix)')
    v.assumptions = [
        'a resume constructs a fresh model copy and a fresh preconditioner '
        'with the same constructor arguments',
        'equivalence with the uninterrupted run is decided through the '
        'specification: both runs are compared with their terms, which '
        'coincide exactly when the live second-order data had been computed '
        'from the saved factors or is recomputed on the next step',
    ]
    return v.finish()


def replay(path: str) -> int:
    rec = json.load(open(path))
    rp = rec['replay']
    out = refreplay.replay(kaisa.Config(**rp['cfg']), rp['h'], rec['seed'])
    print(json.dumps(out['mismatches'], indent=1, default=str)[:3000])
    return 1 if out['mismatches'] else 0
