"""C10: a step touches nothing but the gradients of registered layers.

Frame conditions of spec/KfacRef.tla (EvalFrame, QueryFrame: eval-mode passes
and queries leave every K-FAC variable unchanged; a step changes only grad,
steps, mini and -- on update / refresh steps -- factors and second-order data)
are checked by TLC; the programs are the module trees enumerated by
spec/Register.tla (supported and unsupported leaves with parameters and
buffers, frozen and skipped layers, shared instances).  Every tree is built
for real and driven through: forward/backward WITHOUT K-FAC, registration,
forward/backward WITH K-FAC (outputs and autograd gradients must be bit-wise
identical), eval-mode passes (digest of all K-FAC state unchanged), step()
(every parameter value, every buffer and every gradient outside the
registered layers bit-wise unchanged; registered gradients keep shape, dtype,
device, contiguity and stay finite) for several parameter dtypes and compute
methods.
"""

from __future__ import annotations

import json
import random
import warnings
from typing import Any

import torch

from harness import trees
from harness.common import Verdict, chash
from harness.par import pmap

PROP = 'C10'

VARIANTS = [
    dict(dtype='float32', method='eigen', prediv=True),
    dict(dtype='float64', method='inverse', prediv=False),
    dict(dtype='float32', method='eigen', prediv=False, factor_dtype='float64'),
    dict(dtype='bfloat16', method='eigen', prediv=True, factor_dtype='float32'),
    dict(dtype='float64', method='eigen', prediv=True, inv_dtype='float64'),
    # half-precision factors with many rows of large (finite) activations: the
    # mean second moment is representable, the un-normalised sum is not
    dict(dtype='float32', method='eigen', prediv=True, factor_dtype='float16',
         batch=256, scale=20.0),
    dict(dtype='float32', method='inverse', prediv=False,
         factor_dtype='float16', batch=300, scale=16.0),
    # no clipping / a clip that does not bind: the gradient is written back
    # without being rescaled
    dict(dtype='float32', method='eigen', prediv=True, kl=None),
    dict(dtype='float64', method='inverse', prediv=False, kl=1e12),
]
DT = {'float32': torch.float32, 'float64': torch.float64,
      'bfloat16': torch.bfloat16, 'float16': torch.float16, None: None}


def snap(model: torch.nn.Module) -> dict[str, Any]:
    out: dict[str, Any] = {'p': {}, 'g': {}, 'b': {}, 'gid': {}}
    for n, p in model.named_parameters():
        out['p'][n] = p.detach().clone()
        out['g'][n] = None if p.grad is None else p.grad.detach().clone()
        out['gid'][n] = None if p.grad is None else (
            p.grad.dtype, tuple(p.grad.shape), p.grad.device,
            p.grad.is_contiguous())
    for n, b in model.named_buffers():
        out['b'][n] = b.detach().clone()
    return out


def same(a: torch.Tensor | None, b: torch.Tensor | None) -> bool:
    if a is None or b is None:
        return a is None and b is None
    return a.dtype == b.dtype and a.shape == b.shape and bool(
        torch.equal(a, b) or (a.isnan() == b.isnan()).all()
        and torch.equal(a.nan_to_num(), b.nan_to_num()))


def check(arg: tuple[dict[str, Any], dict[str, Any], int]) -> str | None:
    from kfac.preconditioner import KFACPreconditioner
    from harness.refreplay import state_digest

    d, var, seed = arg
    dtype = DT[var['dtype']]
    # degenerate shapes (one sample, one output channel) make reshapes of
    # transposed tensors views instead of copies
    has_bn = any(lf['kind'] == 'bn' for lf in d['leaves'])
    batch = (4, 1, 3, 1)[seed % 4] if not has_bn else (4, 2, 3, 2)[seed % 4]
    conv_out = (2, 2, 1, 1)[(seed // 2) % 4]
    model, insts = trees.build(d['leaves'], seed, dtype, conv_out)
    if var.get('batch'):
        batch = var['batch']
    inp = trees.inputs(seed, dtype, batch)
    if var.get('scale'):
        inp = {k: t * var['scale'] for k, t in inp.items()}
    skip = [trees.regex(p) for p in d['pats']]

    def fb(train: bool) -> tuple[torch.Tensor, dict]:
        model.train(train)
        model.zero_grad(set_to_none=True)
        out = trees.run_model(model, inp)
        if out.requires_grad:
            out.backward()
        return out.detach().clone(), {
            n: None if p.grad is None else p.grad.detach().clone()
            for n, p in model.named_parameters()}

    # BatchNorm updates running stats in train mode: reset between runs
    bn_state = {n: b.detach().clone() for n, b in model.named_buffers()}

    def reset_buffers() -> None:
        with torch.no_grad():
            for n, b in model.named_buffers():
                b.copy_(bn_state[n])

    out0, g0 = fb(True)
    reset_buffers()
    with warnings.catch_warnings():
        warnings.simplefilter('ignore')
        pre = KFACPreconditioner(
            model, skip_layers=skip, compute_method=var['method'],
            compute_eigenvalue_outer_product=var['prediv'],
            factor_dtype=DT[var.get('factor_dtype')],
            inv_dtype=DT[var.get('inv_dtype', 'float32')], damping=0.05,
            kl_clip=var.get('kl', 0.001))
    out1, g1 = fb(True)
    if not same(out0, out1):
        return 'model output changed by registering K-FAC'
    for n in g0:
        if not same(g0[n], g1[n]):
            return f'autograd gradient of {n} changed by registering K-FAC'
    registered = {id(m) for m in pre._layers}
    reg_params = {n for mn, m in model.named_modules() if id(m) in registered
                  for n in [f'{mn}.{pn}' if mn else pn
                            for pn, _ in m.named_parameters(recurse=False)]}
    before = snap(model)
    if not any(p.grad is not None for p in model.parameters()):
        return None
    pre.step()
    after = snap(model)
    for n in before['p']:
        if not same(before['p'][n], after['p'][n]):
            return f'parameter {n} changed by step()'
        if n not in reg_params:
            if not same(before['g'][n], after['g'][n]):
                return f'gradient of unregistered parameter {n} changed'
        else:
            if before['gid'][n] != after['gid'][n]:
                return (f'gradient metadata of {n} changed: '
                        f'{before["gid"][n]} -> {after["gid"][n]}')
            if not torch.isfinite(after['g'][n]).all():
                return f'gradient of {n} not finite after step()'
    for n in before['b']:
        if not same(before['b'][n], after['b'][n]):
            return f'buffer {n} changed by step()'
    if set(before['p']) != set(after['p']) or set(before['b']) != set(after['b']):
        return 'parameter / buffer set changed'

    class RR:  # adapter for state_digest
        pass
    rr = RR()
    rr.pre = pre
    rr.registered = lambda: list(pre._layers.values())
    dig = state_digest(rr)
    fb(False)
    fb(False)
    if state_digest(rr) != dig:
        return 'K-FAC state changed by eval-mode passes'
    # a training-mode forward pass WITHOUT backward, then eval passes: the eval
    # passes must still leave all K-FAC state unchanged
    model.train(True)
    model.zero_grad(set_to_none=True)
    trees.run_model(model, inp)
    dig = state_digest(rr)
    fb(False)
    if state_digest(rr) != dig:
        return ('K-FAC state changed by an eval-mode pass that follows a '
                'forward-only training pass')
    # a second iteration: still only registered gradients change
    fb(True)
    before = snap(model)
    pre.step()
    after = snap(model)
    for n in before['p']:
        if not same(before['p'][n], after['p'][n]):
            return f'parameter {n} changed by second step()'
        if n not in reg_params and not same(before['g'][n], after['g'][n]):
            return f'gradient of unregistered parameter {n} changed (2)'
    return None


CHAIN_MODELS = ['conv3', 'conv', 'mlp3', 'mixb', 'conv2', 'nd']
CHAIN_VARIANTS = [
    dict(param_dtype='float32', factor_dtype='float32'),    # explicit, equal
    dict(param_dtype='float64', factor_dtype='float64', inv_dtype='float64'),
    dict(param_dtype='float32', factor_dtype=None),
    dict(param_dtype='float32', factor_dtype='float64'),
    dict(param_dtype='float64', factor_dtype='float32'),
    dict(param_dtype='float32', factor_dtype=None, batch=1),
    dict(param_dtype='float64', factor_dtype='float64', inv_dtype='float64',
         batch=1),
]


def check_chain(arg: tuple[str, dict, str, int]) -> str | None:
    """Frame scenario on chained models (every layer's input is the output of
    an upstream op that saved it for backward)."""
    from harness import kaisa
    from harness.refreplay import state_digest

    model_name, var, method, seed = arg
    cfg = kaisa.Config(model=model_name, method=method,
                       prediv=(method == 'eigen'), damping=0.05, **var)
    dtype = kaisa.DT[cfg.param_dtype]
    model = kaisa.make_model(model_name, seed, dtype)
    x, y = kaisa.make_batch(cfg, seed, 0, 0, 0, dtype)

    rng: list[torch.Tensor] = []

    def fb(train: bool):
        model.train(train)
        model.zero_grad(set_to_none=True)
        torch.manual_seed(1234 + seed)     # stochastic layers: same draws
        out = model(x)
        kaisa.loss_fn(out, y, out.shape[0], None).backward()
        rng.append(torch.get_rng_state())
        return out.detach().clone(), {
            n: p.grad.detach().clone() for n, p in model.named_parameters()}

    out0, g0 = fb(True)
    pre = kaisa.build_precond(cfg, model)
    try:
        out1, g1 = fb(True)
    except RuntimeError as e:
        return f'forward/backward fails once K-FAC is registered: {str(e)[:150]}'
    if not torch.equal(rng[0], rng[1]):
        return ('global random state consumed by the K-FAC hooks (a '
                'stochastic layer would draw other numbers)')
    if not same(out0, out1):
        return 'model output changed by registering K-FAC'
    for n in g0:
        if not same(g0[n], g1[n]):
            return f'autograd gradient of {n} changed by registering K-FAC'
    before = snap(model)
    pre.step()
    after = snap(model)
    for n in before['p']:
        if not same(before['p'][n], after['p'][n]):
            return f'parameter {n} changed by step()'
        if before['gid'][n] != after['gid'][n]:
            return f'gradient metadata of {n} changed'
        if not torch.isfinite(after['g'][n]).all():
            return f'gradient of {n} not finite after step()'

    class RR:
        pass
    rr = RR()
    rr.pre = pre
    rr.registered = lambda: list(pre._layers.values())
    dig = state_digest(rr)
    fb(False)
    if state_digest(rr) != dig:
        return 'K-FAC state changed by an eval-mode pass'
    model.train(True)
    model.zero_grad(set_to_none=True)
    model(x)                       # forward only, in train mode
    dig = state_digest(rr)
    fb(False)
    if state_digest(rr) != dig:
        return ('K-FAC state changed by an eval-mode pass that follows a '
                'forward-only training pass')
    try:
        fb(True)
        pre.step()
        fb(True)
    except RuntimeError as e:
        return f'second iteration fails: {str(e)[:150]}'
    return None


def chunk(args: list[tuple]) -> list[tuple[str, Any]]:
    out = []
    for a in args:
        try:
            msg = check(a)
        except Exception as e:  # noqa: BLE001
            msg = f'exception {type(e).__name__}: {e}'[:300]
        if msg:
            out.append((msg, a))
    return out


def _chain_one(a: tuple) -> str | None:
    try:
        return check_chain(a)
    except Exception as e:  # noqa: BLE001
        return f'exception {type(e).__name__}: {e}'[:300]


def main(tier: str, seed: int) -> int:
    v = Verdict(PROP, tier, seed, 'model_checking')
    K = ['linear', 'conv', 'linsub', 'bn', 'act']
    r, ts = trees.gen_trees(
        kinds=K, frozen=['none', 'part', 'all'],
        max_leaves=3 if tier == 'quick' else 4, max_depth=2,
        patterns=trees.PATTERNS[:5], max_pat=1, share=True,
        simulate=1500 if tier == 'quick' else 20000, seed=seed)
    if not r.ok:
        v.violation(f'TLC: {r.violated} on Register.tla',
                    {'kind': 'spec', 'inv': str(r.violated)})
    # frame conditions of KfacRef checked by TLC
    from harness import kaisa, refreplay
    sr = refreplay.check_spec(
        kaisa.Config(F=2, I=3, accum=2, in_hook=True),
        ['Train', 'Step', 'Eval', 'Mem', 'Save', 'Reset', 'FwdOnly'],
        [1, 2], [-1], 6 if tier == 'quick' else 8, workers=6)
    if not sr.ok:
        v.violation(f'TLC: KfacRef frame property {sr.violated}\n'
                    f'{sr.error_text[:1000]}',
                    {'kind': 'spec', 'inv': str(sr.violated)})
    rng = random.Random(seed)
    ts = [d for d in ts if d['reg']]
    rng.shuffle(ts)
    ts = ts[:240 if tier == 'quick' else 5000]
    jobs = [(d, VARIANTS[i % len(VARIANTS)], seed + i)
            for i, d in enumerate(ts)]
    n = 32
    res = pmap(chunk, [jobs[i::n] for i in range(n) if jobs[i::n]])
    for lst in res:
        for msg, a in lst:
            v.violation(f'{msg} :: variant {a[1]} tree {json.dumps(a[0])[:300]}',
                        {'kind': 'frame', 'msg': ' '.join(msg.split(' ')[:3])},
                        replay={'tree': a[0], 'variant': a[1], 'seed': a[2]})
    chain_jobs = [(m, vv, meth, seed + i)
                  for i, m in enumerate(CHAIN_MODELS)
                  for vv in CHAIN_VARIANTS
                  for meth in ('eigen', 'inverse')]
    chain_jobs += [('bigconv', dict(batch=8), meth, seed)
                   for meth in ('eigen', 'inverse')]
    cres = pmap(_chain_one, chain_jobs)
    for a, msg in zip(chain_jobs, cres):
        if msg:
            v.violation(f'{msg} :: chained model {a[0]} variant {a[1]} {a[2]}',
                        {'kind': 'frame', 'msg': ' '.join(msg.split(' ')[:3])},
                        replay={'chain': list(a)})
    nontriv = {chash(d) for d in ts if any(
        lf['kind'] in ('bn', 'act') or lf['frozen'] != 'none'
        for lf in d['leaves'])}
    v.coverage = {
        'states': max(r.distinct + sr.distinct, 1),
        'transitions': max(r.generated + sr.generated, 1),
        'traces_validated_against_impl': len(jobs) + len(chain_jobs),
        'chained_model_cases': len(chain_jobs),
        'samples': [ts[0]] if ts else ['none'],
        'evaluations': len(jobs),
        'distinct_nontrivial': len(nontriv),
        'rule': 'trees with at least one registered layer, each driven '
                'through the frame scenario under one dtype/method variant; '
                'non-trivial = tree also contains an unsupported or frozen '
                'leaf',
        'variants': VARIANTS,
    }
    v.assumptions = ['devices: CPU only', 'module trees limited to the '
                     'Register.tla scope; real-valued inputs sampled']
    return v.finish()


def replay(path: str) -> int:
    rec = json.load(open(path))
    rp = rec['replay']
    if 'chain' in rp:
        msg = check_chain(tuple(rp['chain']))
        print(msg)
        return 1 if msg else 0
    msg = check((rp['tree'], rp['variant'], rp['seed']))
    print(msg)
    return 1 if msg else 0
