"""C13: memory and communication placement follow the KAISA strategy.

spec/KfacDist.tla derives, for a configuration + assignment + history (the
per-call facts come from a behaviour of spec/KfacRef.tla), the exact sequence
of K-FAC-owned collectives every rank issues (kind, group, root, element
count, dtype class), including bucket fusion, symmetric packing and the
load-time broadcasts; the clauses of C13 are TLA+ predicates over per-rank
issue sequences.  For every case the real KFACPreconditioner is executed on
simdist (float64 parameters / float32 inverses so that gradient and inverse
broadcasts are distinguishable) and TLC evaluates (i) the clauses on the
derived programs (design), (ii) the clauses on the RECORDED sequences (the
property decision), (iii) HoldersOK: second-order data is held exactly by the
gradient workers after every step, (iv) Conforms: recorded == derived
(model-drift NOTE only).  memory_usage() totals are compared with the bytes
of the tensors actually reachable from the layer objects.
"""

from __future__ import annotations

import json
import random
from typing import Any

import torch

from harness import config_lattice, dist, kaisa, refreplay, simdist
from harness.common import Verdict, chash
from harness.par import pmap

PROP = 'C13'
CLAUSE_TEXT = {
    'T_InvBcast': 'inverses broadcast outside the gradient-worker group',
    'T_GradBcast': 'gradients broadcast outside the receiver group',
    'T_NoInvMemOpt': 'inverse broadcast under MEM-OPT',
    'T_NoGradCommOpt': 'gradient broadcast under COMM-OPT',
    'T_FactorsWorld': 'factor allreduce not on the world / unknown collective',
    'T_NothingW1': 'communication in a world of one',
    'T_OncePerUpdate': 'factors not allreduced exactly once per update step '
                       '(or wrong element count / packing)',
    'T_Match': 'members of a group issue different collective sequences on it',
    'T_Members': 'collective issued on a group the rank (or the root) is not a member of',
    'T_InvSizes': 'second-order broadcast with an element count the configuration does not allow (e.g. dense transfer under symmetry-aware mode)',
    'T_GradSizes': 'gradient broadcast with an unexpected element count',
    'HoldersOK': 'second-order data held by a rank that is not a gradient '
                 'worker (or missing on one that is)',
    'DesignOK': 'KfacDist derived protocol violates a clause (spec)',
}


def gen_histories(tier: str, seed: int) -> list[dict[str, Any]]:
    fams = [
        dict(F=1, I=1, accum=1, in_hook=True),
        dict(F=1, I=2, accum=1, in_hook=False),
        dict(F=2, I=3, accum=2, in_hook=True),
        dict(F=2, I=2, accum=1, in_hook=False),
        dict(F=1, I=2, accum=1, in_hook=False),
    ]
    depth = 6 if tier == 'quick' else 8
    alphas = [['Train', 'Step', 'Save', 'Load'], ['Train', 'Step', 'Mem'],
              ['Train', 'Step', 'Eval', 'Mem'], ['Train', 'Step', 'Save', 'Load'],
              # factor-update steps without a new batch
              ['Train', 'Step', 'ResetMid']]
    from concurrent.futures import ThreadPoolExecutor

    def one(arg):
        f, alpha = arg
        cfg1 = kaisa.Config(W=1, k=1, prediv=False, **f)
        hs, r = refreplay.gen_behaviours(
            cfg1, alpha, [f['accum']], [-1], depth, 0, seed, exhaustive=True,
            strict=True)
        good = []
        for h in hs:
            if h[-1]['x'].get('raises'):
                continue
            acts = [x['act'] for x in h]
            if acts.count('step') < 2:
                continue
            good.append(h)

        def score(h):
            acts = [x['act'] for x in h]
            return (acts.count('step') * 2 + ('mem' in acts)
                    + 3 * any(a == 'reset' and 'step' in acts[i + 1:]
                              and 'step' in acts[:i]
                              for i, a in enumerate(acts))
                    + 2 * any(x['act'] == 'load' and x['x'].get('hasInv')
                              for x in h))
        rng = random.Random(seed)
        good.sort(key=lambda h: (-score(h), rng.random()))
        return {'hp': f, 'hs': good[:8], 'tlc': (r.distinct, r.generated)}

    with ThreadPoolExecutor(max_workers=4) as ex:
        return list(ex.map(one, zip(fams, alphas)))


def mem_check(out: dict[str, Any], h: list[dict], W: int) -> list[str]:
    bad = []
    for r in range(W):
        for i, rec in enumerate(out['allrecs'][r]):
            if 'mem' not in rec:
                continue
            mu = rec['mem']
            parts = sum(v for k, v in mu.items() if k != 'total')
            if mu.get('total') != parts:
                bad.append(f'rank {r} op {i}: total {mu.get("total")} != sum '
                           f'of parts {parts}')
            held = rec.get('mem_held')
            if held is not None and mu.get('total') != held:
                bad.append(f'rank {r} op {i}: memory_usage total '
                           f'{mu.get("total")} != bytes of tensors held {held}')
    return bad


def run_case(case: dict[str, Any]) -> dict[str, Any]:
    cfg = kaisa.Config(**case['cfg'])
    h, seed = case['h'], case['seed']
    pol = [simdist.LazyCompletion(seed), simdist.RandomPolicy(seed, 0.5),
           simdist.EagerCompletion()][case['i'] % 3]
    if cfg.W == 1:
        pol = simdist.LazyCompletion(seed)
    out = refreplay.replay(cfg, h, seed, policy=pol)
    issues = []
    # W = 1: an INITIALISED world of one (policy given => simdist world);
    # KfacDist derives the empty program, Conforms compares it with what
    # the real code issued
    for m in out['mismatches'][:2]:
        issues.append((f'{m["cat"]} after {m["act"]} (op {m["at"]}): '
                       f'{m["msg"]}', {'kind': 'term', 'cat': m['cat']}))
    for m in out.get('comm', [])[:2]:
        issues.append((f'{m["kind"]}: {str(m)[:200]}',
                       {'kind': 'comm', 'monitor': m['kind']}))
    if 'world' not in out or issues:
        return {'issues': issues, 'case': None}
    kc = dist.build_case(cfg, h, out)
    for b in mem_check(out, h, cfg.W):
        issues.append((b, {'kind': 'memory'}))
    return {'issues': issues, 'case': kc}


def world_of_one(case: dict[str, Any]) -> list[tuple[str, dict]]:
    """torch.distributed INITIALISED with a single rank (torchrun
    --nproc_per_node=1): KfacDist derives the empty program for W = 1 --
    nothing is communicated, the rank keeps everything, results equal the
    run without torch.distributed."""
    cfg = kaisa.Config(**case['cfg'])
    h = [['train', 1], ['step'], ['train', 1], ['step'], ['mem'],
         ['save', True], ['load', True], ['train', 1], ['step']]
    res = kaisa.run(cfg, h, simdist.LazyCompletion(case['seed']),
                    seed=case['seed'])
    solo = kaisa.run(cfg, h, None, seed=case['seed'])
    out = []
    for r in (res, solo):
        if any(r.errors):
            out.append((f'world of one: {[e for e in r.errors if e][0]}'[:300],
                        {'kind': 'w1', 'sub': 'raise'}))
            return out
    issued = [e for e in res.events if e.get('ev') == 'issue']
    if issued:
        kinds = sorted({e.get('kind') for e in issued})
        out.append((f'{len(issued)} collective(s) issued in an initialised '
                    f'world of one: {kinds}', {'kind': 'w1', 'sub': 'comm'}))
    for a, b in zip(res.ranks[0].snaps, solo.ranks[0].snaps):
        for n in a['grads']:
            if not torch.equal(a['grads'][n], b['grads'][n]):
                out.append((f'world of one: gradient {n} differs from the '
                            'run without torch.distributed',
                            {'kind': 'w1', 'sub': 'grad'}))
                return out
        if a['hold'] != b['hold']:
            out.append(('world of one: second-order data held differs from '
                        'the run without torch.distributed',
                        {'kind': 'w1', 'sub': 'hold'}))
    return out


def main(tier: str, seed: int) -> int:
    v = Verdict(PROP, tier, seed, 'model_checking')
    w1 = []
    for i, (method, prediv) in enumerate(
            [('eigen', True), ('eigen', False), ('inverse', False)]):
        for j, cap in enumerate([25.0, 0.0]):
            w1.append({'cfg': dict(W=1, k=1, method=method, prediv=prediv,
                                   bucket_cap_mb=cap, symmetry=bool((i + j) % 2),
                                   model=['mlp3', 'mixb'][j], F=1, I=1 + j),
                       'seed': seed + i})
    for c, lst in zip(w1, pmap(world_of_one, w1)):
        for what, sig in lst:
            v.violation(f'{what} :: {json.dumps(c["cfg"])}', sig,
                        replay={'w1': c})
    worlds = [1, 2, 4] if tier == 'quick' else [1, 2, 3, 4, 6, 8]
    r0, tuples = config_lattice.enumerate_configs(worlds, ['zero', 'tiny', 'big'])
    valid = [t['c'] for t in tuples if not t['d']['rejected']]
    rng = random.Random(seed)
    rng.shuffle(valid)
    cells: dict[tuple, list] = {}
    for c in valid:
        cells.setdefault((c['W'], c['k'], c['method'], c['prediv'], c['sym'],
                          c['cap']), []).append(c)
    n_cases = 72 if tier == 'quick' else 800
    picked = []
    while len(picked) < n_cases and any(cells.values()):
        for key in list(cells):
            if cells[key] and len(picked) < n_cases:
                picked.append(cells[key].pop())
    hists = gen_histories(tier, seed)
    cases = []
    for i, c in enumerate(picked):
        fam = hists[i % len(hists)]
        if not fam['hs']:
            continue
        h = fam['hs'][(i // len(hists)) % len(fam['hs'])]
        kc = config_lattice.to_kaisa(c)
        kc.update(fam['hp'])
        kc.update(model=['mlp3', 'mixb', 'mlp2', 'eq'][i % 4], param_dtype='float64',
                  inv_dtype='float32')
        cases.append({'cfg': kc, 'h': h, 'seed': seed * 100 + i, 'i': i})
    outs = pmap(run_case, cases)
    kcases, kidx = [], []
    for i, o in enumerate(outs):
        for what, sig in o['issues']:
            v.violation(f'{what} :: {json.dumps(cases[i]["cfg"])[:300]}', sig,
                        replay={'case': cases[i]})
        if o['case'] is not None:
            kcases.append(o['case'])
            kidx.append(i)
    states = r0.distinct + sum(h['tlc'][0] for h in hists)
    trans = r0.generated + sum(h['tlc'][1] for h in hists)
    drift = 0
    # TLC on the cases, in batches; on a failure re-run the batch one by one
    B = 12
    from concurrent.futures import ThreadPoolExecutor

    def first_bad(batch: list[dict], invs: list[str]) -> list[tuple[int, str]]:
        """(index in batch, invariant) of every failing case: TLC stops at
        the first violated state, so continue behind it."""
        bad: list[tuple[int, str]] = []
        start = 0
        while start < len(batch):
            r = dist.check_cases(batch[start:], invariants=invs, workers=1)
            if r.ok:
                break
            # the violating state is the last state of the trace: ci = its index
            k = max(1, len(r.trace))    # states 1..k, ci = k (a violation
            # by the initial state prints no numbered state: k = 1)
            if k > len(batch) - start:
                raise RuntimeError('cannot locate the violating case')
            bad.append((start + k - 1, str(r.violated)))
            # other invariants of the same case
            for inv in invs:
                if inv != r.violated and len(invs) > 1:
                    r1 = dist.check_cases([batch[start + k - 1]],
                                          invariants=[inv], workers=1)
                    if not r1.ok:
                        bad.append((start + k - 1, inv))
            start += k
        return bad

    def run_batch(lo: int) -> list[tuple[int, str]]:
        batch = kcases[lo:lo + B]
        r = dist.check_cases(batch, invariants=['DesignOK'] + dist.CLAUSES
                             + ['Conforms'])
        bad: list[tuple[int, str]] = []
        if not r.ok:
            bad = [(lo + j, inv) for j, inv in
                   first_bad(batch, ['DesignOK'] + dist.CLAUSES)]
            bad += [(lo + j, inv) for j, inv in first_bad(batch, ['Conforms'])]
        return bad + [(-1, f'{r.distinct}:{r.generated}')]

    with ThreadPoolExecutor(max_workers=8) as ex:
        results = list(ex.map(run_batch, range(0, len(kcases), B)))
    for res in results:
        for j, inv in res:
            if j == -1:
                d, g = inv.split(':')
                states += int(d)
                trans += int(g)
                continue
            cs = cases[kidx[j]]
            if inv == 'Conforms':
                drift += 1
                continue
            v.violation(
                f'{CLAUSE_TEXT[inv]} [TLC: {inv} on the recorded execution] '
                f':: {json.dumps(cs["cfg"])[:300]} history '
                f'{[(x["act"], x["arg"]) for x in cs["h"]]}',
                {'kind': 'clause', 'inv': inv,
                 'strategy': 'comm_opt' if cs['cfg']['k'] == cs['cfg']['W']
                 else 'mem_opt' if cs['cfg']['k'] == 1 else 'hybrid_opt'},
                replay={'case': cs})
    # design level: the protocol KfacDist.tla derives satisfies every clause
    # and never stalls (blocking reading) for every world size, gradient-
    # worker count, layer list, method and communication flag in scope
    if tier == 'quick':
        dcs = dist.design_cases(6, limit=80, seed=seed)
    else:
        dcs = dist.design_cases(6) + dist.design_cases(8, limit=1500, seed=seed)
    dbad, dstates, dtrans = dist.check_design(dcs)
    states += dstates
    trans += dtrans
    for j in dbad[:5]:
        v.violation('spec/KfacDist.tla: DesignOK fails on the derived protocol '
                    f':: {json.dumps({k: x for k, x in dcs[j].items() if k not in ("trace", "hist", "holders")}, default=list)[:400]}',
                    {'kind': 'spec', 'inv': 'DesignOK'})
    if drift:
        v.note(f'model-drift: {drift} executions whose recorded collective '
               'sequence differs from KfacDist.tla although every clause '
               'holds on them')
    v.coverage = {
        'states': max(states, 1), 'transitions': max(trans, 1),
        'traces_validated_against_impl': len(kcases),
        'design_cases': len(dcs),
        'samples': [{'cfg': cases[0]['cfg'],
                     'history': [[x['act'], x['arg']] for x in cases[0]['h']],
                     'rank0_trace_head': [
                         {k: (sorted(x) if isinstance(x, set) else x)
                          for k, x in op.items()}
                         for op in (kcases[0]['trace'][0][:5] if kcases else [])]}],
        'evaluations': len(cases),
        'distinct_nontrivial': len({chash(c['cfg']) for c in cases
                                    if 1 < c['cfg']['k'] < c['cfg']['W']}),
        'rule': 'cases = valid configurations of KfacConfig.tla stratified '
                'over (W, k, method, prediv, symmetry, capacity class) x '
                'reference behaviours with save/load/memory queries; '
                'non-trivial = HYBRID-OPT (1 < k < W)',
        'model_drift': drift, 'conforming': len(kcases) - drift,
    }
    v.assumptions = [
        'float64 parameters with float32 second-order data so that gradient '
        'and inverse broadcasts are told apart by dtype',
        'receiver rows taken from the grid formula (C06 establishes that the '
        'real groups are the grid rows)',
    ]
    return v.finish()


def replay(path: str) -> int:
    rec = json.load(open(path))
    if 'w1' in rec['replay']:
        r = world_of_one(rec['replay']['w1'])
        print(r)
        return 1 if r else 0
    cs = rec['replay']['case']
    o = run_case(cs)
    print(o['issues'])
    bad = bool(o['issues'])
    if o['case'] is not None:
        for inv in ['DesignOK'] + dist.CLAUSES:
            r = dist.check_cases([o['case']], invariants=[inv], workers=1)
            if not r.ok:
                print('TLC', inv, 'violated')
                bad = True
    return 1 if bad else 0
