"""C02: distributed work placement is semantically transparent.

Specification side: spec/KfacRef.tla is the single-process reference machine;
spec/KfacConfig.tla enumerates the configuration lattice (world size,
gradient-worker count, co-location, cost heuristic, bucket capacity class,
symmetry, method, pre-division) with the constructor's acceptance rule.  For
every valid configuration the behaviours TLC generates for the reference
machine (strict iteration discipline, several steps, F != I, accumulation)
are executed by the real KFACPreconditioner on W simulated ranks; Mean terms
range over all ranks, so the expected gradients are those of single-process
K-FAC on the union batch.  Checked per step: (a) every rank's gradients equal
the interpreted reference term (refinement KfacDist => KfacRef at the level
of step-boundary states), (b) gradients are bit-identical across ranks,
(c) bit-identical across scheduling policies (lazy / eager completion,
random, TLC-style run-to-block), (d) equal (tight tolerance) to a REAL
single-process run on the union batch, (e) no buffer is modified while in
flight, no communication monitor fires.
"""

from __future__ import annotations

import json
import random
from typing import Any

import torch

from harness import analyze, config_lattice, kaisa, refreplay, simdist
from harness.common import Verdict, chash
from harness.par import pmap

PROP = 'C02'
TOL_UNION = 5e-4


def gen_histories(tier: str, seed: int) -> list[dict[str, Any]]:
    """Reference behaviours for a few hyper-parameter families."""
    fams = [
        dict(F=1, I=1, accum=1, in_hook=True),
        dict(F=1, I=2, accum=1, in_hook=False),
        dict(F=2, I=3, accum=2, in_hook=True),
        dict(F='int_1_2', I='int_2_1', accum=1, in_hook=True,
             damping='damp_lin'),
        # a long-running job: the step counter starts far from zero
        dict(F=1, I=2, accum=1, in_hook=True, steps0=60),
        dict(F=2, I=3, accum=1, in_hook=False, steps0=1002),
    ]
    out = []
    depth = 6 if tier == 'quick' else 8
    for f in fams:
        cfg1 = kaisa.Config(W=1, k=1, **f)
        hs, r = refreplay.gen_behaviours(
            cfg1, ['Train', 'Step', 'Eval'], [f['accum']], [-1], depth, 0,
            seed, exhaustive=True, strict=True)
        hs = [h for h in hs if not h[-1]['x'].get('raises')
              and sum(x['act'] == 'step' for x in h) >= 2]
        hs.sort(key=lambda h: -sum(x['act'] == 'step' for x in h))
        out.append({'hp': f, 'hs': hs[:6], 'tlc': (r.distinct, r.generated)})
    return out


def policies(W: int, seed: int) -> list[simdist.Policy]:
    return [simdist.LazyCompletion(seed), simdist.EagerCompletion(
        list(reversed(range(W)))), simdist.RandomPolicy(seed, 0.5)]


def run_case(case: dict[str, Any]) -> dict[str, Any]:
    cfgd, h, seed = case['cfg'], case['h'], case['seed']
    cfg = kaisa.Config(**cfgd)
    issues: list[tuple[str, dict]] = []
    strat = analyze.strategy_name(cfg)
    # real single-process run on the union batch
    ucfg = kaisa.Config(**{**cfgd, 'W': 1, 'k': 1, 'union': cfg.W,
                           'bucket_cap_mb': 0.0, 'symmetry': False})
    uni = refreplay.replay(ucfg, h, seed)
    if uni['mismatches']:
        issues.append((f'union-batch single-process run deviates from the '
                       f'reference term: {uni["mismatches"][0]}',
                       {'kind': 'union_vs_term'}))
    ug = uni['step_grads'][0]
    ref = None
    nsteps = 0
    max_union = 0.0
    for pol in policies(cfg.W, seed):
        out = refreplay.replay(cfg, h, seed, policy=pol)
        for m in out['mismatches']:
            issues.append((f'{m["cat"]} mismatch on rank {m.get("rank")} after '
                           f'{m["act"]} (op {m["at"]}): {m["msg"]} '
                           f'[{pol.name}]',
                           {'kind': 'term', 'cat': m['cat'],
                            'strategy': strat}))
            break
        for m in out['comm']:
            issues.append((f'{m["kind"]}: {str(m)[:300]} [{pol.name}]',
                           {'kind': 'comm', 'monitor': m['kind'],
                            'strategy': strat}))
            break
        w = out['world']
        for m in w.monitors:
            if m['kind'] == 'inflight_write':
                issues.append((f'buffer modified while in flight: {m}',
                               {'kind': 'inflight', 'op': m.get('op')}))
                break
        sg = out['step_grads']
        if not sg.get(0):
            continue
        nsteps = len(sg[0])
        for r in range(1, cfg.W):
            for s, (a, b) in enumerate(zip(sg[0], sg.get(r, []))):
                if not analyze.grads_bitwise_equal(a, b):
                    issues.append((f'step {s}: rank {r} gradients differ from '
                                   f'rank 0 [{pol.name}]',
                                   {'kind': 'ranks_differ', 'strategy': strat}))
                    break
        if ref is None:
            ref = sg[0]
            for s, (a, b) in enumerate(zip(ref, ug)):
                for n in a:
                    e = refreplay.rel(a[n], b[n])
                    max_union = max(max_union, e)
                    if e > TOL_UNION:
                        issues.append((
                            f'step {s} {n}: distributed gradient differs from '
                            f'the single-process union-batch run (rel {e:.2e})',
                            {'kind': 'union', 'strategy': strat}))
        else:
            for s, (a, b) in enumerate(zip(ref, sg[0])):
                if not analyze.grads_bitwise_equal(a, b):
                    issues.append((f'step {s}: gradients depend on the '
                                   f'schedule [{pol.name}]',
                                   {'kind': 'schedule_dependent',
                                    'strategy': strat}))
                    break
    return {'issues': issues[:6], 'nsteps': nsteps, 'max_union': max_union,
            'execs': 1 + len(policies(cfg.W, seed))}


def lone_sender(case: dict) -> list[tuple[str, dict]]:
    """A gradient worker that has NOTHING else to wait for inside step():
    one registered bias-free layer (the others skipped), no clipping, factor
    allreduce unbucketed in the hooks, ranks not synchronised by the driver,
    gradient tensors kept between iterations (zero_grad(set_to_none=False)
    writes in place).  step() must not return on the sender while its
    gradient broadcast is still in flight."""
    cfg = kaisa.Config(**case['cfg'])
    hist = [['train', 1], ['step']] * 3
    out = []
    for pol in (simdist.LazyCompletion(case['seed']),
                simdist.RandomPolicy(case['seed'], 0.5),
                simdist.EagerCompletion()):
        res = kaisa.run(cfg, hist, pol, seed=case['seed'])
        if any(res.errors):
            out.append((f'lone sender: {[e for e in res.errors if e][0]}'[:300],
                        {'kind': 'lone', 'sub': 'raise'}))
            break
        for m in res.monitors:
            if m['kind'] == 'inflight_write':
                out.append((f'buffer modified while in flight: {m} '
                            f'[{pol.name}]',
                            {'kind': 'inflight', 'op': m.get('op')}))
                break
        for what, sig in analyze.comm_issues(res):
            out.append((what, dict(sig, kind='comm')))
        # (no cross-rank comparison here: without the driver's averaging the
        # gradient workers of different columns precondition different local
        # gradients -- C02 presupposes averaged gradients)
        if out:
            break
    return out


def main(tier: str, seed: int) -> int:
    v = Verdict(PROP, tier, seed, 'model_checking')
    lone = []
    for i, (W, k, model, skip) in enumerate(
            [(2, 1, 'mixb', ['2', '4']), (2, 1, 'mlp2nb', ['0']),
             (4, 2, 'mixb', ['2', '4']), (4, 1, 'mlp2nb', ['0'])]):
        for method, prediv in (('eigen', True), ('inverse', False)):
            lone.append({'cfg': dict(W=W, k=k, method=method, prediv=prediv,
                                     kl_clip=None, model=model,
                                     skip_layers=skip, keep_grads=True,
                                     bucket_cap_mb=0.0, in_hook=True,
                                     ddp=False, F=1, I=1 + i % 2),
                         'seed': seed + i})
    for c, lst in zip(lone, pmap(lone_sender, lone)):
        for what, sig in lst:
            v.violation(f'{what} :: {json.dumps(c["cfg"])}', sig,
                        replay={'lone': c})
    worlds = [1, 2, 4] if tier == 'quick' else [1, 2, 3, 4, 6, 8]
    r, tuples = config_lattice.enumerate_configs(
        worlds, ['neg', 'zero', 'tiny', 'big'])
    if not r.ok:
        v.violation(f'TLC: {r.violated} on KfacConfig.tla',
                    {'kind': 'spec', 'inv': str(r.violated)})
    rng = random.Random(seed)
    # constructor acceptance / derived attributes for a sample of all tuples
    ctor = rng.sample(tuples, min(len(tuples), 300 if tier == 'quick' else 3000))
    bad = pmap(_ctor_chunk, [ctor[i::16] for i in range(16)])
    for lst in bad:
        for msg, t in lst:
            v.violation(f'constructor: {msg} :: {t["c"]}',
                        {'kind': 'ctor', 'msg': msg.split(':')[0][:40]},
                        replay={'tuple': t})
    valid = [t['c'] for t in tuples if not t['d']['rejected'] and t['c']['W'] > 1]
    hists = gen_histories(tier, seed)
    n_cases = 64 if tier == 'quick' else 900
    rng.shuffle(valid)
    # stratify over (W, k, method, prediv, colocate)
    cells: dict[tuple, list] = {}
    for c in valid:
        cells.setdefault((c['W'], c['k'], c['method'], c['prediv'],
                          c['colocate']), []).append(c)
    picked = []
    while len(picked) < n_cases and any(cells.values()):
        for key in list(cells):
            if cells[key] and len(picked) < n_cases:
                picked.append(cells[key].pop())
    cases = []
    for i, c in enumerate(picked):
        fam = hists[i % len(hists)]
        if not fam['hs']:
            continue
        h = fam['hs'][(i // len(hists)) % len(fam['hs'])]
        kc = config_lattice.to_kaisa(c)
        kc.update(fam['hp'])
        kc['model'] = ['mlp3', 'mixb', 'conv', 'mlp2nb', 'mlp2', 'eq'][i % 6]
        kc.update([dict(), dict(param_dtype='float64', inv_dtype='float32'),
                   dict(inv_dtype='float64')][(i // 6) % 3])
        cases.append({'cfg': kc, 'h': h, 'seed': seed * 100 + i})
    outs = pmap(run_case, cases)
    nsteps = 0
    for cs, o in zip(cases, outs):
        nsteps += o['nsteps']
        for what, sig in o['issues']:
            v.violation(f'{what} :: {json.dumps(cs["cfg"])[:300]}', sig,
                        replay={'case': cs})
    v.coverage = {
        'states': r.distinct + sum(h['tlc'][0] for h in hists),
        'transitions': max(r.generated, 1) + sum(h['tlc'][1] for h in hists),
        'traces_validated_against_impl': sum(o['execs'] for o in outs),
        'samples': [{'cfg': cases[0]['cfg'],
                     'history': [[x['act'], x['arg']] for x in cases[0]['h']]}],
        'evaluations': sum(o['execs'] for o in outs) + len(ctor),
        'distinct_nontrivial': len({chash(c['cfg']) for c in cases}),
        'rule': 'cases = valid configuration tuples of KfacConfig.tla '
                '(stratified over W, k, method, prediv, colocate) x reference '
                'behaviours; each executed under 3 schedules + once '
                'single-process on the union batch; distinct = distinct '
                'configurations (all have W > 1)',
        'config_tuples': len(tuples), 'valid_distributed': len(valid),
        'constructor_tuples_replayed': len(ctor),
        'steps_compared': nsteps,
        'max_rel_diff_vs_union_run': max((o['max_union'] for o in outs),
                                         default=0.0),
        'tolerance_vs_union_run': TOL_UNION,
    }
    v.assumptions = [
        'loss reduction "sum / local batch size", gradients averaged over '
        'ranks by the driver (DDP emulation), the arrangement under which the '
        'union-batch run coincides in real arithmetic',
        'simdist torch.distributed contract; float32 tolerance vs the real '
        'union run 5e-4, bit-wise across ranks and schedules',
    ]
    return v.finish()


def _ctor_chunk(ts: list[dict]) -> list[tuple[str, dict]]:
    out = []
    for t in ts:
        msg = config_lattice.check_constructor(t)
        if msg:
            out.append((msg, t))
    return out


def replay(path: str) -> int:
    rec = json.load(open(path))
    rp = rec['replay']
    if 'tuple' in rp:
        msg = config_lattice.check_constructor(rp['tuple'])
        print(msg)
        return 1 if msg else 0
    if 'lone' in rp:
        r = lone_sender(rp['lone'])
        print(r)
        return 1 if r else 0
    out = run_case(rp['case'])
    print(out['issues'])
    return 1 if out['issues'] else 0
