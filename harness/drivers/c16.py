"""C16: exactly the eligible layers are registered, once each.

spec/Register.tla defines the registered set of a module tree (depth-first
traversal, instance de-duplication, requires_grad of all parameters, regular
expression SEARCH of every skip pattern on the qualified name and on the class
name) with OncePerInstance / ExactlyEligible / UniqueNames / Monotone checked
by TLC over all trees in scope.  Every TLC state (tree + skip list) is built
as a real torch module and registered with the real KFACPreconditioner: the
registered names in registration order must equal the specification's, every
registered module carries exactly one forward-pre hook and one backward hook,
no other module carries any.
"""

from __future__ import annotations

import json
from typing import Any

import torch

from harness import trees
from harness.common import Verdict, chash
from harness.par import pmap

PROP = 'C16'


def check_tree(d: dict[str, Any]) -> str | None:
    import warnings
    from kfac.preconditioner import KFACPreconditioner

    leaves = d['leaves']
    model, insts = trees.build(leaves)
    skip = [trees.regex(p) for p in d['pats']]
    with warnings.catch_warnings():
        warnings.simplefilter('ignore')
        pre = KFACPreconditioner(model, skip_layers=skip)
    got = [name for name, _ in pre._layers.values()]
    want = ['.'.join(leaves[i - 1]['path']) for i in d['reg']]
    # the registered SET is the property; the order of registration is not
    if sorted(got) != sorted(want) or len(set(got)) != len(got):
        return f'registered {got} spec {want}'
    reg_insts = {id(insts[i - 1]) for i in d['reg']}
    got_insts = {id(m) for m in pre._layers}
    if reg_insts != got_insts:
        return 'registered instances differ'
    for m in model.modules():
        # every OTHER module is left untouched (no hooks of any kind); which
        # hooks a registered module carries is an implementation choice
        nh = (len(m._forward_pre_hooks) + len(m._forward_hooks)
              + len(m._backward_hooks)
              + len(getattr(m, '_backward_pre_hooks', {})))
        if id(m) in reg_insts:
            if nh == 0:
                return f'registered {type(m).__name__} carries no hook'
        elif nh != 0:
            return f'{nh} hooks on unregistered {type(m).__name__}'
    for name, layer in pre._layers.values():
        if layer.module.module is not dict(model.named_modules())[name]:
            return f'layer {name} wraps a different module'
    return None


def check_tree_gpt(d: dict[str, Any]) -> str | None:
    """GPT-NeoX variant: register_modules keyed on the lower-cased class name."""
    from kfac.distributed import TorchDistributedCommunicator
    from kfac.enums import AllreduceMethod
    from kfac.gpt_neox.preconditioner import register_modules

    leaves = d['leaves']
    model, insts = trees.build(leaves)
    skip = [trees.regex(p) for p in d['pats']]
    layers = register_modules(
        model, model_parallel_group=None, skip_layers=skip,
        tdc=TorchDistributedCommunicator(),
        allreduce_method=AllreduceMethod.ALLREDUCE, grad_scaler=None,
        factor_dtype=None, inv_dtype=torch.float32, symmetry_aware=False)
    got = [name for name, _ in layers.values()]
    want = ['.'.join(leaves[i - 1]['path']) for i in d['reg']]
    if sorted(got) != sorted(want) or len(set(got)) != len(got):
        return f'registered {got} spec {want}'
    if {id(m) for m in layers} != {id(insts[i - 1]) for i in d['reg']}:
        return 'registered instances differ'
    for i in d['reg']:
        lf = leaves[i - 1]
        par = {'colpar': 'output', 'rowpar': 'input'}[
            leaves[(lf['share'] or i) - 1]['kind']]
        lay = layers[insts[i - 1]][1]
        if lay.parallelism != par:
            return f'layer {lf["path"]}: parallelism {lay.parallelism}'
    return None


def chunk_gpt(ds: list[dict]) -> list[tuple[str, dict]]:
    out = []
    for d in ds:
        try:
            msg = check_tree_gpt(d)
        except Exception as e:  # noqa: BLE001
            msg = f'exception {type(e).__name__}: {e}'[:300]
        if msg:
            out.append((msg, d))
    return out


def chunk(ds: list[dict]) -> list[tuple[str, dict]]:
    out = []
    for d in ds:
        try:
            msg = check_tree(d)
        except Exception as e:  # noqa: BLE001
            msg = f'exception {type(e).__name__}: {e}'[:300]
        if msg:
            out.append((msg, d))
    return out


def main(tier: str, seed: int) -> int:
    from concurrent.futures import ThreadPoolExecutor

    v = Verdict(PROP, tier, seed, 'model_checking')
    K = ['linear', 'conv', 'linsub', 'bn', 'act', 'empty']
    if tier == 'quick':
        scopes = [
            dict(kinds=K, frozen=['none', 'part', 'all'], max_leaves=2,
                 max_depth=2, patterns=trees.PATTERNS[:6], max_pat=1,
                 share=True),
            dict(kinds=['linear', 'conv', 'bn'], frozen=['none', 'all'],
                 max_leaves=3, max_depth=2, patterns=trees.PATTERNS[5:9],
                 max_pat=2, share=True, simulate=3000),
            # a leaf with a parameter besides weight / bias, only that one frozen
            dict(kinds=['linear', 'linx', 'act'],
                 frozen=['none', 'part', 'extra'], max_leaves=2, max_depth=1,
                 patterns=trees.PATTERNS[:2], max_pat=1, share=False),
            # independent patterns: inline flags of one do not leak to others
            dict(kinds=['linear', 'conv'], frozen=['none'], max_leaves=2,
                 max_depth=1, patterns=trees.CI_PATTERNS, max_pat=2,
                 share=False),
            # sibling names that are string prefixes of one another
            dict(kinds=['linear', 'conv', 'act'], frozen=['none'],
                 max_leaves=3, max_depth=2, patterns=trees.PATTERNS[:3],
                 max_pat=1, share=False, segs=('a', 'ab', 'a_b')),
            # homonyms: classes named `Linear` that are not torch.nn.Linear,
            # before / after real ones
            dict(kinds=['linear', 'homact', 'homlin', 'conv'],
                 frozen=['none'], max_leaves=3, max_depth=1,
                 patterns=trees.PATTERNS[4:5] + trees.PATTERNS[7:9],
                 max_pat=1, share=False),
            # names wrappers and containers produce ("module", "0"), a name
            # that contains another one ("submodule"), patterns that refer
            # to them
            dict(kinds=['linear', 'conv', 'act'], frozen=['none'],
                 max_leaves=2, max_depth=2, patterns=trees.WRAP_PATTERNS,
                 max_pat=1, share=False,
                 segs=('module', 'submodule', '0')),
        ]
    else:
        scopes = [
            dict(kinds=K, frozen=['none', 'part', 'all'], max_leaves=2,
                 max_depth=2, patterns=trees.PATTERNS, max_pat=1, share=True),
            dict(kinds=['linear', 'conv', 'bn'], frozen=['none', 'part'],
                 max_leaves=3, max_depth=2, patterns=trees.PATTERNS[:7],
                 max_pat=2, share=True, simulate=4000),
            dict(kinds=K, frozen=['none', 'part', 'all'], max_leaves=5,
                 max_depth=3, patterns=trees.PATTERNS, max_pat=3, share=True,
                 simulate=1500),
            dict(kinds=['linear', 'conv', 'linsub'], frozen=['none'],
                 max_leaves=2, max_depth=1, patterns=trees.CI_PATTERNS,
                 max_pat=3, share=False),
            dict(kinds=['linear', 'conv', 'linx', 'bn', 'act'],
                 frozen=['none', 'part', 'all', 'extra'], max_leaves=3,
                 max_depth=2, patterns=trees.PATTERNS[:4], max_pat=1,
                 share=True, simulate=4000),
            dict(kinds=['linear', 'conv', 'linsub'], frozen=['none'],
                 max_leaves=3, max_depth=2, patterns=trees.CI_PATTERNS,
                 max_pat=3, share=False, simulate=4000),
            dict(kinds=['linear', 'conv', 'act'], frozen=['none'],
                 max_leaves=2, max_depth=2, patterns=trees.PATTERNS[:4],
                 max_pat=1, share=True, segs=('a', 'ab', 'a_b', 'b')),
            dict(kinds=['linear', 'conv', 'linsub', 'act', 'empty'],
                 frozen=['none', 'all'], max_leaves=4, max_depth=2,
                 patterns=trees.PATTERNS[:4], max_pat=1, share=True,
                 segs=('a', 'ab', 'a_b', 'b'), simulate=6000),
            dict(kinds=['linear', 'homact', 'homlin', 'conv', 'linsub'],
                 frozen=['none', 'part'], max_leaves=3, max_depth=2,
                 patterns=trees.PATTERNS[4:5] + trees.PATTERNS[7:9],
                 max_pat=2, share=True, simulate=2000),
            dict(kinds=['linear', 'conv', 'linsub', 'act', 'empty'],
                 frozen=['none', 'all'], max_leaves=3, max_depth=2,
                 patterns=trees.WRAP_PATTERNS, max_pat=2, share=True,
                 segs=('module', 'submodule', '0', 'sub', 'mod'),
                 simulate=2000),
        ]
    gscope = dict(kinds=['colpar', 'rowpar', 'linear', 'act', 'empty'],
                  frozen=['none', 'part', 'all'], max_leaves=2, max_depth=2,
                  patterns=trees.GPT_PATTERNS, max_pat=1, share=True,
                  variant='gpt')
    if tier != 'quick':
        gscope.update(max_leaves=3, max_pat=2, simulate=3000)
    with ThreadPoolExecutor(max_workers=4) as ex:
        fut_g = ex.submit(lambda: trees.gen_trees(seed=seed, **gscope))
        runs = list(ex.map(lambda s: trees.gen_trees(seed=seed, **s), scopes))
        rg, tg = fut_g.result()
    all_t: list[dict] = []
    states = trans = 0
    for (r, ts), sc in zip(runs, scopes):
        if not r.ok:
            v.violation(f'TLC: {r.violated} on spec/Register.tla\n'
                        f'{r.error_text[:1200]}',
                        {'kind': 'spec', 'inv': str(r.violated)})
        states += r.distinct
        trans += r.generated
        all_t += ts
    if not rg.ok:
        v.violation(f'TLC: {rg.violated} on spec/Register.tla (gpt variant)',
                    {'kind': 'spec', 'inv': str(rg.violated)})
    states += rg.distinct
    trans += rg.generated
    n = 48
    gres = pmap(chunk_gpt, [tg[i::16] for i in range(16) if tg[i::16]])
    for lst in gres:
        for msg, d in lst:
            v.violation(f'[gpt variant] {msg} :: tree {json.dumps(d)[:400]}',
                        {'kind': 'replay_gpt', 'msg': msg.split(' ')[0]},
                        replay={'tree': d, 'gpt': True})
    res = pmap(chunk, [all_t[i::n] for i in range(n) if all_t[i::n]])
    for lst in res:
        for msg, d in lst:
            v.violation(f'{msg} :: tree {json.dumps(d)[:400]}',
                        {'kind': 'replay', 'msg': msg.split(' ')[0]},
                        replay={'tree': d})
    nontriv = {chash(d) for d in all_t
               if len(d['leaves']) >= 2 and d['pats']}
    v.coverage = {
        'states': max(states, 1), 'transitions': max(trans, 1),
        'traces_validated_against_impl': len(all_t) + len(tg),
        'gpt_variant_trees': len(tg),
        'samples': [all_t[len(all_t) // 2]] if all_t else ['none'],
        'evaluations': len(all_t),
        'distinct_nontrivial': len(nontriv),
        'rule': 'every TLC state (tree + skip list) built and registered for '
                'real; non-trivial = at least two leaves and one pattern',
        'scopes': [{k: (len(x) if k == 'patterns' else x)
                    for k, x in s.items()} for s in scopes],
    }
    v.assumptions = ['regular expressions limited to the modelled family '
                     '(literals, "." wildcard, ^ / $ anchors)',
                     'GPT-NeoX class-name keyed registration is decided in '
                     'C11/C12 harness (stub classes)']
    return v.finish()


def replay(path: str) -> int:
    rec = json.load(open(path))
    if rec['replay'].get('gpt'):
        msg = check_tree_gpt(rec['replay']['tree'])
        print(msg)
        return 1 if msg else 0
    msg = check_tree(rec['replay']['tree'])
    print(msg)
    return 1 if msg else 0
