"""C04: Kronecker factors are decayed running averages of batch second
moments.  spec/KfacRef.tla fixes, for every history, which micro-batches enter
which EMA update with which decay (terms Ema/Mean); every behaviour TLC
generates is replayed into the real code -- W = 1 and, with the iteration
discipline `Strict`, on W in {2, 4} simulated ranks under all strategies where
Mean ranges over all ranks -- and after every action the factors read from
every rank are compared with the float64 interpretation computed from tensors
captured by the driver's own hooks (unfold for convolutions, N-d linear
inputs, bias column, loss scale), plus symmetry, positive semi-definiteness
and dtype.
"""

from __future__ import annotations

import json

from harness import kaisa, refreplay, reffam
from harness.common import Verdict

PROP = 'C04'
CATS = {'factor', 'evalframe', 'comm', 'raise'}


def families(tier: str) -> list[dict]:
    quick = tier == 'quick'
    d = 5 if quick else 6
    fams = []
    base = dict(W=1, k=1, method='eigen', prediv=True, damping=0.05)
    variants = [
        dict(model='mlp2', decay=0.9, accum=1, in_hook=True),
        dict(model='conv', decay=0.7, accum=2, in_hook=True),
        dict(model='conv2', decay='decay_lin', accum=1, in_hook=False),
        dict(model='nd', decay='expdecay', accum=3, in_hook=True),
        dict(model='mlp2nb', decay=1.0, accum=2, in_hook=False),
        dict(model='ndt', decay=0.8, accum=2, in_hook=True),
        dict(model='mlp3', decay=0.5, accum=1, in_hook=True,
             grad_scaler=8.0),
        # a large flattened batch (batch x tokens = 4500+ rows)
        dict(model='nd', decay=0.9, accum=1, in_hook=True, batch=1500),
        # dynamic loss scaling: the scale differs between the micro-batches
        # of one accumulation window and between iterations
        dict(model='mlp2', decay=0.8, accum=2, in_hook=True,
             grad_scaler='dyn4'),
        dict(model='mlp3', decay=0.8, accum=3, in_hook=False,
             grad_scaler='dyn16', F=2, I=2),
        dict(model='conv', decay=0.9, accum=1, in_hook=False,
             grad_scaler=1024.0, factor_dtype='float64'),
        dict(model='mlp2', decay=0.9, accum=2, in_hook=True,
             param_dtype='float64'),
        dict(model='nd', decay=0.8, accum=1, in_hook=True,
             factor_dtype='float64', F=2, I=2),
        dict(model='conv2', decay=0.6, accum=2, in_hook=True, F='int_1_2'),
        dict(model='mlp2', decay=0.9, accum=1, in_hook=True,
             factor_dtype='bfloat16'),
        dict(model='mixb', decay=0.8, accum=2, in_hook=False,
             factor_dtype='float16'),
    ]
    if not quick:
        variants += [
            dict(model='conv2', decay=0.9, accum=3, in_hook=False,
                 param_dtype='float64'),
            dict(model='mlp3', decay='expdecay', accum=2, in_hook=False),
            dict(model='nd', decay=0.3, accum=2, in_hook=False, F=3),
            dict(model='mlp2', decay=0.9, accum=1, in_hook=True,
                 factor_dtype='bfloat16'),
        ]
    for i, vv in enumerate(variants):
        c = dict(base, **vv)
        micro = sorted({1, c['accum']})
        alpha = ['Train', 'Step', 'Eval'] if i % 2 == 0 else \
            ['Train', 'Step', 'Eval', 'FwdOnly', 'Reset']
        fams.append(reffam.fam(c, alpha, d, micro=micro))
    # distributed: Mean over all ranks (strict iteration discipline)
    dist_gen = [
        dict(model='mlp3', decay=0.9, accum=1, in_hook=True),
        dict(model='conv', decay=0.7, accum=2, in_hook=True),
        dict(model='mlp2', decay='decay_lin', accum=1, in_hook=False, F=2, I=2),
    ]
    worlds = [dict(W=2, k=1), dict(W=2, k=2, bucket_cap_mb=0.0),
              dict(W=4, k=2, symmetry=True),
              dict(W=4, k=4, bucket_cap_mb=0.00004),
              dict(W=4, k=1, symmetry=True, bucket_cap_mb=0.0)]
    for vv in dist_gen:
        c = dict(base, **vv)
        rcs = [dict(c, **w) for w in worlds]
        fams.append(reffam.fam(c, ['Train', 'Step', 'Eval'], d + 1,
                               micro=sorted({1, c['accum']}), strict=True,
                               replay_cfgs=rcs))
    # a long-running job: the step counter crosses 2**8 during the behaviour
    cz = dict(base, model='mlp2', decay=0.9, accum=2, in_hook=True, F=1, I=2,
              steps0=254)
    fams.append(reffam.fam(cz, ['Train', 'Step'], 20 if quick else 36,
                           micro=[2], exhaustive=False,
                           num=2 if quick else 10, spec_depth=4))
    return fams


def main(tier: str, seed: int) -> int:
    v = Verdict(PROP, tier, seed, 'model_checking')
    fams = families(tier)
    agg = reffam.run_families(
        fams, seed, max_replay=150 if tier == 'quick' else 3000,
        nseeds=1 if tier == 'quick' else 3)
    reffam.report(v, agg, fams, CATS)
    v.coverage['distinct_nontrivial'] = int(
        agg['stats'].get('steps', 0)) + agg['behaviours']
    v.coverage['rule'] += ('; for C04 every behaviour compares the factors '
                           'of every layer after every action')
    v.assumptions = [
        'second moments are recomputed in float64 from tensors captured by '
        'driver-owned hooks; tolerance 2e-5 relative (float32 factors)',
        'real-valued inputs are sampled (seeded), the discrete structure '
        '(which batches, which decay, which step) is enumerated by TLC',
    ]
    return v.finish()


def replay(path: str) -> int:
    rec = json.load(open(path))
    rp = rec['replay']
    out = refreplay.replay(kaisa.Config(**rp['cfg']), rp['h'], rec['seed'])
    print(json.dumps(out['mismatches'], indent=1, default=str)[:3000])
    return 1 if out['mismatches'] else 0
