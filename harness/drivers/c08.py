"""C08: bucketed allreduce is equivalent to per-tensor allreduce.

spec/Bucket.tla models TorchDistributedCommunicator on a 2x2 world whose row
and column groups are distinct groups of equal size; programs of allreduce /
allreduce_bucketed / flush calls are generated as behaviours and the clauses
(ExactlyOnce, CapRespected, NothingPending, ReducedInRequestedGroup,
OneDtypePerWireOp, WireMatches) are model-checked by TLC for capacities below
one tensor, between, and above all.  Every program TLC emits is executed by a
real TorchDistributedCommunicator per rank on simdist and, in a twin world,
with every call unbucketed: each future must resolve to exactly the twin's
value, shape and dtype; fused operations must respect the capacity; every
tensor is sent once; a second flush sends nothing; the wire operations
(group, element count) are compared with the specification's.
"""

from __future__ import annotations

import json
import random
from typing import Any

import torch

from harness import bucket, simdist
from harness.common import Verdict, chash
from harness.par import pmap

PROP = 'C08'
EL = {'float32': 4, 'float64': 8}


def check_program(arg: tuple[dict[str, Any], list, int, int]) -> list[dict]:
    d, types, cap, seed = arg
    out: list[dict] = []
    pols = [simdist.LazyCompletion(seed), simdist.RandomPolicy(seed, 0.4)]
    twin = bucket.execute(d, types, cap, simdist.EagerCompletion(),
                          bucketed_world=False)
    if twin['errors'] or twin['monitors']:
        return [{'what': f'unbucketed twin failed: {twin["errors"]} '
                         f'{twin["monitors"][:1]}', 'sig': {'kind': 'twin'}}]
    ids = [c['id'] for c in d['prog'] if c['op'] != 'flush']
    calls = {c['id']: c for c in d['prog'] if c['op'] != 'flush'}
    for pol in pols:
        res = bucket.execute(d, types, cap, pol)
        if res['errors']:
            out.append({'what': f'execution error {res["errors"]}',
                        'sig': {'kind': 'error',
                                'msg': list(res['errors'].values())[0][:40]}})
            break
        for m in res['monitors']:
            out.append({'what': f'monitor {m["kind"]}: {str(m)[:200]}',
                        'sig': {'kind': 'monitor', 'monitor': m['kind']}})
        if out:
            break
        for r in range(4):
            for i in ids:
                if not bucket.participates(r, calls[i]):
                    continue
                a = res['results'][r].get(i)
                b = twin['results'][r].get(i)
                c = calls[i]
                desc = (f'tensor {i} ({types[c["ty"] - 1][0]}, group {c["g"]}, '
                        f'avg={c["avg"]}, sym={c["sym"]}, op={c["op"]})')
                if isinstance(a, str) or isinstance(b, str):
                    if a != b:
                        out.append({'what': f'rank {r} {desc}: rejection '
                                    f'differs ({a!r} vs {b!r})',
                                    'sig': {'kind': 'rejection'}})
                    continue
                if a is None or b is None:
                    out.append({'what': f'rank {r} {desc}: no result',
                                'sig': {'kind': 'pending'}})
                    continue
                if a.dtype != b.dtype:
                    out.append({'what': f'rank {r} {desc}: dtype {a.dtype} '
                                f'but unbucketed gives {b.dtype}',
                                'sig': {'kind': 'dtype'}})
                elif a.shape != b.shape:
                    out.append({'what': f'rank {r} {desc}: shape {a.shape}',
                                'sig': {'kind': 'shape'}})
                elif not torch.equal(a, b):
                    out.append({'what': f'rank {r} {desc}: value differs from '
                                f'the unbucketed allreduce (e.g. '
                                f'{a.flatten()[0].item()} vs '
                                f'{b.flatten()[0].item()})',
                                'sig': {'kind': 'value',
                                        'group': c['g']}})
            # wire: exactly once, capacity, vs spec
            sent = sum(w['numel'] * EL[w['dtype']] for w in res['wire'][r])
            want = sum(w['bytes'] for w in d['wire'][r])
            if sent != want:
                out.append({'what': f'rank {r}: {sent} bytes on the wire, '
                            f'each tensor exactly once needs {want}',
                            'sig': {'kind': 'bytes_on_wire'}})
            for w in res['wire'][r]:
                nb = w['numel'] * EL[w['dtype']]
                if nb > cap and not _single(w, d, types, r):
                    out.append({'what': f'rank {r}: fused allreduce of {nb} '
                                f'bytes exceeds capacity {cap}',
                                'sig': {'kind': 'capacity'}})
        if out:
            break
        # conformance of the wire sequence with the specification (drift only)
        for r in range(4):
            got = [(tuple(w['members']), w['numel'] * EL[w['dtype']])
                   for w in res['wire'][r]]
            exp = [(tuple(sorted(_members(r, w['g']))), w['bytes'])
                   for w in d['wire'][r]]
            if got != exp:
                out.append({'what': f'rank {r}: wire {got} spec {exp}',
                            'sig': {'kind': 'drift'}, 'drift': True})
                break
    return out[:4]


def _members(r: int, role: str) -> set[int]:
    return bucket.members(r, role)


def _single(w: dict, d: dict, types: list, r: int) -> bool:
    """Is this wire op a single (oversized) tensor?"""
    for c in d['prog']:
        if c['op'] == 'flush':
            continue
        name, shape, dt = types[c['ty'] - 1]
        n = 1
        for s in shape:
            n *= s
        if c['sym'] and len(shape) == 2 and shape[0] == shape[1]:
            n = shape[0] * (shape[0] + 1) // 2
        if n == w['numel'] and dt == w['dtype']:
            return True
    return False


def chunk(args: list[tuple]) -> list[tuple[dict, dict]]:
    out = []
    for a in args:
        for b in check_program(a):
            out.append((b, a[0]))
    return out


def main(tier: str, seed: int) -> int:
    from concurrent.futures import ThreadPoolExecutor

    v = Verdict(PROP, tier, seed, 'model_checking')
    T = bucket.TYPES
    small_types = [T[0], T[2], T[3]]
    runs = []
    if tier == 'quick':
        scopes = [
            dict(cap=2500, types=small_types, roles=['world', 'row', 'col'],
                 max_calls=3),
            dict(cap=300, types=T, roles=['world', 'row', 'col', 'self'],
                 max_calls=5, simulate=30),
            dict(cap=100000, types=T, roles=['world', 'row', 'col', 'self'],
                 max_calls=6, simulate=25),
            # rank-asymmetric traffic: some calls are made by one instance of
            # the row / column groups only
            dict(cap=2500, types=small_types, roles=['row', 'col'],
                 max_calls=4, simulate=60,
                 insts=('both', 'first', 'second')),
            # boundary-value capacities: one byte below / exactly the sum of
            # two packed (symmetric) tensors, so that fusing them is just
            # forbidden / just allowed
            dict(cap=439, types=[T[2], T[4]], roles=['world', 'row'],
                 max_calls=3),
            dict(cap=440, types=[T[2], T[4]], roles=['world', 'row'],
                 max_calls=3),
            # several handles over the same ranks (None and an explicit
            # all-ranks group; two new_group results for one row)
            dict(cap=700, types=[T[0], T[2]], roles=['world', 'worldx'],
                 max_calls=4),
            dict(cap=1000, types=small_types,
                 roles=['world', 'worldx', 'row', 'rowx'], max_calls=6,
                 simulate=60, insts=('both', 'first')),
        ]
    else:
        scopes = [
            dict(cap=2500, types=small_types, roles=['world', 'row', 'col'],
                 max_calls=4),
            dict(cap=1000, types=T, roles=['world', 'row', 'col', 'self'],
                 max_calls=3),
            dict(cap=300, types=T, roles=['world', 'row', 'col', 'self'],
                 max_calls=7, simulate=500),
            dict(cap=100000, types=T, roles=['world', 'row', 'col', 'self'],
                 max_calls=7, simulate=500),
            dict(cap=2100, types=T, roles=['world', 'row', 'col', 'self'],
                 max_calls=7, simulate=500),
            dict(cap=2500, types=small_types, roles=['row', 'col'],
                 max_calls=3, insts=('both', 'first', 'second')),
            dict(cap=1000, types=T, roles=['world', 'row', 'col'],
                 max_calls=6, simulate=800,
                 insts=('both', 'first', 'second')),
        ] + [
            # boundary-value capacities (sums of plain / packed sizes -1, +0)
            dict(cap=c, types=[T[2], T[3], T[4]], roles=['world', 'row'],
                 max_calls=3)
            for c in (439, 440, 619, 620, 2175, 2176, 1307, 1308)
        ] + [
            dict(cap=c, types=small_types, roles=['world', 'worldx', 'rowx'],
                 max_calls=3) for c in (700, 2500)
        ] + [
            dict(cap=1000, types=T,
                 roles=['world', 'worldx', 'row', 'rowx', 'col'], max_calls=7,
                 simulate=600, insts=('both', 'first', 'second')),
        ]
    with ThreadPoolExecutor(max_workers=3) as ex:
        runs = list(ex.map(
            lambda s: bucket.gen_programs(
                s['cap'], 'group', 'split', s['types'], s['roles'],
                s['max_calls'], simulate=s.get('simulate'), seed=seed,
                workers=5, insts=s.get('insts', ('both',))), scopes))
    jobs = []
    states = trans = 0
    rng = random.Random(seed)
    for (r, ps), s in zip(runs, scopes):
        if not r.ok:
            v.violation(f'TLC: {r.violated} on spec/Bucket.tla (design: one '
                        f'bucket per group and dtype)\n{r.error_text[:1000]}',
                        {'kind': 'spec', 'inv': str(r.violated)})
        states += r.distinct
        trans += r.generated
        ps = [p for p in ps if any(c['op'] == 'arb' for c in p['prog'])]
        lim = 400 if tier == 'quick' else 12000
        if len(ps) > lim:
            # prefer programs that use several groups / dtypes in buckets
            def score(p):
                b = [c for c in p['prog'] if c['op'] == 'arb']
                return len({c['g'] for c in b}) + len({c['ty'] for c in b})
            ps.sort(key=lambda p: (-score(p), rng.random()))
            ps = ps[:lim]
        for i, p in enumerate(ps):
            jobs.append((p, s['types'], s['cap'], seed + i))
    n = 64
    res = pmap(chunk, [jobs[i::n] for i in range(n) if jobs[i::n]])
    drift = 0
    for lst in res:
        for b, p in lst:
            if b.get('drift'):
                drift += 1
                continue
            v.violation(f'{b["what"]} :: program '
                        f'{json.dumps(p["prog"])[:500]}', b['sig'],
                        replay={'prog': p, 'note': 'see harness/bucket.py'})
    if drift:
        v.note(f'model-drift: {drift} programs whose wire sequence differs '
               'from Bucket.tla while every property clause holds')
    nontriv = {chash(j[0]['prog']) for j in jobs
               if len({c['g'] for c in j[0]['prog'] if c['op'] == 'arb'}) >= 2}
    v.coverage = {
        'states': max(states, 1), 'transitions': max(trans, 1),
        'traces_validated_against_impl': len(jobs),
        'samples': [jobs[len(jobs) // 2][0]] if jobs else ['none'],
        'evaluations': 3 * len(jobs),
        'distinct_nontrivial': len(nontriv),
        'rule': 'programs emitted by TLC executed bucketed (2 schedules) and '
                'unbucketed (twin); non-trivial = bucketed calls on at least '
                'two different groups in one program',
        'scopes': [{k: (len(x) if k == 'types' else x) for k, x in s.items()}
                   for s in scopes],
        'model_drift': drift,
    }
    v.assumptions = ['2 x 2 world with row / column / world / singleton '
                     'groups; float32 and float64 tensors with exactly '
                     'representable contents']
    return v.finish()


def replay(path: str) -> int:
    rec = json.load(open(path))
    p = rec['replay']['prog']
    out = check_program((p, bucket.TYPES, 2500, 0))
    print(out)
    return 1 if out else 0
