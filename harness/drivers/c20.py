"""C20: tracing is transparent and its statistics are exact.

spec/Tracing.tla: the global trace table as a state machine (Call with
returns / raises, Get(average, max_history), Clear; two distinct functions
sharing one name) with its properties model-checked by TLC; behaviours
(all maximal paths to the depth bound for a small alphabet, -simulate for the
larger one) are replayed into kfac.tracing with a scripted clock: returned
objects and raised exceptions compared by identity, get_trace compared
exactly.
"""

from __future__ import annotations

import json
import random
from fractions import Fraction
from typing import Any

from harness.common import Verdict, chash
from harness.par import pmap
from harness.progs import instantiate
from harness.tlc import run_tlc, tla

PROP = 'C20'
FUNCS = [(1, 'alpha'), (2, 'beta'), (3, 'alpha')]   # 1 and 3 share a name
UNIT = 1 / 64                                       # dyadic clock unit


class Boom(Exception):
    pass


def replay_one(hist: list[dict[str, Any]],
               sync_ids: frozenset = frozenset()) -> str | None:
    """Interpret a behaviour of Tracing.tla: nested / recursive calls of the
    traced functions are driven from inside the function bodies.  Functions
    whose id is in sync_ids are decorated with trace(sync=True)."""
    import kfac.tracing as tracing

    clock = {'t': 0.0}
    real_time = tracing.time

    class FakeTime:
        @staticmethod
        def time() -> float:
            return clock['t']

    tracing.time = FakeTime
    pos = {'i': 0}
    state: dict[str, Any] = {'err': None}
    impls: dict[int, Any] = {}

    def run_until_end(depth: int) -> tuple[bool, Any]:
        """Process actions until the matching end of the current call (or the
        end of the history at top level). Returns (raises, marker)."""
        while pos['i'] < len(hist) and state['err'] is None:
            i = pos['i']
            rec = hist[i]
            pos['i'] += 1
            act = rec['act']
            if act == 'begin':
                marker = object()
                exc = Boom(f'x{i}')
                box = {'raises': None}
                try:
                    # positional and keyword arguments pass through untouched
                    # (including names a wrapper is likely to use itself)
                    kw = {'tag': marker, 'n': i, 'name': 'x', 'sync': False,
                          'func': None, 'self': 1, 'args': (2,), 'kwargs': {},
                          't': 4, 'out': 5, 'fname': 'y', 'times': [6]}
                    out = impls[rec['f']](marker, exc, box, depth + 1, i,
                                          **kw)
                    if box.get('args') != ((i,), kw):
                        state['err'] = f'op {i}: arguments changed'
                    elif box['raises']:
                        state['err'] = f'op {i}: exception swallowed'
                    elif out is not marker:
                        state['err'] = f'op {i}: return value changed'
                except Boom as e:
                    if not box['raises']:
                        state['err'] = f'op {i}: unexpected exception'
                    elif e is not exc:
                        state['err'] = f'op {i}: a different exception raised'
            elif act == 'tick':
                clock['t'] += rec['d'] * UNIT
            elif act == 'end':
                if depth == 0:
                    state['err'] = f'op {i}: end without a call in progress'
                return bool(rec['flag']), None
            elif act == 'get':
                k = None if rec['d'] == 0 else rec['d']
                got = tracing.get_trace(average=bool(rec['flag']),
                                        max_history=k)
                want = {e['name']: Fraction(e['num'], e['den']) * Fraction(UNIT)
                        for e in rec['exp']}
                if list(got) != [e['name'] for e in rec['exp']]:
                    state['err'] = (f'op {i}: names {list(got)} spec '
                                    f'{[e["name"] for e in rec["exp"]]}')
                else:
                    for nm, w in want.items():
                        if got[nm] != float(w):   # IEEE division of exact operands
                            state['err'] = (
                                f'op {i}: get_trace(average={bool(rec["flag"])},'
                                f' max_history={k})[{nm}] = {got[nm]} spec '
                                f'{float(w)}')
                            break
            elif act == 'clear':
                tracing.clear_trace()
                if tracing.get_trace() != {}:
                    state['err'] = f'op {i}: clear_trace left entries'
        return False, None

    try:
        tracing.clear_trace()
        for fid, name in FUNCS:
            def make(fid=fid):
                def f(marker, exc, box, depth, *a, **kw):
                    box['args'] = (a, kw)
                    raises, _ = run_until_end(depth)
                    box['raises'] = raises
                    if raises:
                        raise exc
                    return marker
                return f
            f = make()
            f.__name__ = name
            impls[fid] = tracing.trace(sync=fid in sync_ids)(f)
        run_until_end(0)
        return state['err']
    finally:
        tracing.time = real_time
        tracing.clear_trace()


SYNC_IDS = frozenset({2})


def replay_sync(hist: list[dict[str, Any]]) -> str | None:
    """trace(sync=True): rank 0 replays the behaviour with function 2 synced;
    rank 1 plays the environment the specification prescribes -- one world
    barrier when a synced call begins and one when it returns (none when it
    raises).  Any other barrier pattern of the decorator is a mismatch or a
    stall on the simulated world."""
    import torch.distributed as dist
    from harness import simdist

    res: dict[int, Any] = {}

    def body(r: int) -> None:
        if r == 0:
            res[0] = replay_one(hist, SYNC_IDS)
            return
        stack: list[int] = []
        for rec in hist:
            if rec['act'] == 'begin':
                stack.append(rec['f'])
                if rec['f'] in SYNC_IDS:
                    dist.barrier()
            elif rec['act'] == 'end':
                f = stack.pop()
                if f in SYNC_IDS and not rec['flag']:
                    dist.barrier()

    w = simdist.World(2, simdist.LazyCompletion(0))
    w.run(body)
    errs = [rs.error for rs in w.ranks if rs.error is not None]
    if errs:
        return f'sync: {type(errs[0]).__name__}: {errs[0]}'[:200]
    if w.monitors:
        return f'sync: {w.monitors[0]}'[:200]
    nb = sum(1 for e in w.events if e['ev'] == 'issue' and e.get('rank') == 0
             and e['kind'] == 'barrier')
    want = 0
    stack = []
    for rec in hist:
        if rec['act'] == 'begin':
            stack.append(rec['f'])
            want += rec['f'] in SYNC_IDS
        elif rec['act'] == 'end':
            f = stack.pop()
            want += (f in SYNC_IDS and not rec['flag'])
    if hist and hist[0]['act'] == 'nbar':
        if want != hist[0]['d']:
            raise RuntimeError('environment rank disagrees with Tracing.tla')
        want = hist[0]['d']
    if nb != want:
        return f'sync: {nb} barriers issued, specification {want}'
    return res.get(0)


def chunk_sync(hs: list[list[dict]]) -> list[tuple[str, list]]:
    out = []
    for h in hs:
        try:
            msg = replay_sync(h)
        except Exception as e:  # noqa: BLE001
            msg = f'exception {type(e).__name__}: {e}'[:300]
        if msg:
            out.append((msg, h))
    return out


def chunk(hs: list[list[dict]]) -> list[tuple[str, list]]:
    out = []
    for h in hs:
        try:
            msg = replay_one(h)
        except Exception as e:  # noqa: BLE001
            msg = f'exception {type(e).__name__}: {e}'[:300]
        if msg:
            out.append((msg, h))
    return out


def gen(depth: int, funcs: list, durs: list[int], hist: list[int],
        simulate: int | None, seed: int) -> tuple[Any, list]:
    defs = ('Funcs == {' + ', '.join(
        f'[id |-> {i}, name |-> "{n}"]' for i, n in funcs) + '}\n'
        f'Durs == {tla(set(durs))}\nHist == {tla(set(hist))}\n'
        f'MaxNest == 3\nSyncIds == {{2}}\nMaxDepth == {depth}\n')
    name = 'MC_Tracing'
    mod = instantiate('Tracing', name, defs)
    cfg = 'SPECIFICATION Spec\nCONSTRAINT EmitDone\nCHECK_DEADLOCK FALSE\n'
    if simulate:
        r = run_tlc(name, cfg_text=cfg, extra_modules={name: mod}, workers=1,
                    simulate=f'num={simulate}', depth=depth + 1, seed=seed,
                    deadlock=False, timeout=1800)
    else:
        r = run_tlc(name, cfg_text=cfg, extra_modules={name: mod}, workers=8,
                    deadlock=False, timeout=1800)
    hs = []
    for line in r.stdout.splitlines():
        if line.startswith('"['):
            try:
                hs.append(json.loads(json.loads(line)))
            except Exception:  # noqa: BLE001
                pass
    return r, hs


def gen_states(depth: int, nest: int, durs: list[int],
               hist: list[int]) -> tuple[Any, list]:
    """State coverage: one shortest history per distinct (table, stack,
    clock) state of Tracing.tla, followed by EVERY query in that state."""
    defs = ('Funcs == {' + ', '.join(
        f'[id |-> {i}, name |-> "{n}"]' for i, n in FUNCS) + '}\n'
        f'Durs == {tla(set(durs))}\nHist == {tla(set(hist))}\n'
        f'MaxNest == {nest}\nSyncIds == {{2}}\nMaxDepth == {depth}\n')
    name = 'MC_TracingS'
    mod = instantiate('Tracing', name, defs)
    r = run_tlc(name, cfg_text='SPECIFICATION Spec\nVIEW view\n'
                'INVARIANT EmitState\nCHECK_DEADLOCK FALSE\n',
                extra_modules={name: mod}, workers=8, deadlock=False,
                timeout=1800)
    hs = []
    for line in r.stdout.splitlines():
        if line.startswith('"{'):
            try:
                d = json.loads(json.loads(line))
            except Exception:  # noqa: BLE001
                continue
            qs = sorted(d['q'], key=lambda q: (q['avg'], q['k']))
            hs.append([{'act': 'nbar', 'f': 0, 'd': int(d['nbar']),
                        'flag': False, 'exp': []}] + list(d['h']) + [
                {'act': 'get', 'f': 0, 'd': q['k'], 'flag': q['avg'],
                 'exp': q['exp']} for q in qs])
    return r, hs


def main(tier: str, seed: int) -> int:
    v = Verdict(PROP, tier, seed, 'model_checking')
    quick = tier == 'quick'
    name = 'MC_TracingP'
    defs = ('Funcs == {' + ', '.join(
        f'[id |-> {i}, name |-> "{n}"]' for i, n in FUNCS) + '}\n'
        'Durs == {1, 3}\nHist == {0, 1, 2}\nMaxNest == 3\nSyncIds == {2}\n'
        f'MaxDepth == {7 if quick else 8}\n')
    mod = instantiate('Tracing', name, defs)
    rp = run_tlc(name, cfg_text=(
        'SPECIFICATION Spec\nVIEW view\nINVARIANT NoEmptyEntries\n'
        'INVARIANT UniqueKeys\nINVARIANT SamplesBounded\n'
        'INVARIANT StackOrdered\nINVARIANT BarriersBounded\n'
        'PROPERTY OneSamplePerCompletedCall\n'
        'PROPERTY QueriesDoNotChange\n'
        'CHECK_DEADLOCK FALSE\n'), extra_modules={name: mod}, workers=8,
        deadlock=False, timeout=1800)
    if not rp.ok:
        v.violation(f'TLC: {rp.violated} on spec/Tracing.tla\n'
                    f'{rp.error_text[:800]}',
                    {'kind': 'spec', 'inv': str(rp.violated)})
    r1, h1 = gen(6, FUNCS, [1, 3], [0, 2], None, seed)
    r2, h2 = gen(14 if quick else 20, FUNCS, [1, 2, 5], [0, 1, 2, 3],
                 10 if quick else 250, seed)
    r3, h3 = gen_states(12 if quick else 15, 1, [1, 2], [0, 1, 2])
    r4, h4 = gen_states(10 if quick else 13, 2, [1, 2],
                        [0, 1, 2] if quick else [0, 1, 2, 3])
    rng = random.Random(seed)
    if quick and len(h3) + len(h4) > 8000:
        h3 = rng.sample(h3, min(len(h3), 5000))
        h4 = rng.sample(h4, min(len(h4), 3000))
    if len(h1) > (6000 if quick else 10 ** 9):
        h1 = rng.sample(h1, 6000)
    if len(h2) > (3000 if quick else 200000):
        h2 = rng.sample(h2, 3000 if quick else 200000)
    hs = h1 + h2 + h3 + h4
    n = 48
    res = pmap(chunk, [hs[i::n] for i in range(n) if hs[i::n]])
    for lst in res:
        for msg, h in lst:
            v.violation(f'{msg} :: history '
                        f'{[(x["act"], x["f"], x["d"], x["flag"]) for x in h]}'[:600],
                        {'kind': 'replay', 'msg': msg.split(':', 1)[-1].strip()[:30]},
                        replay={'h': h})
    # trace(sync=True) on a simulated 2-rank world
    hsync = [h for h in h4 if any(x['act'] == 'begin' and x['f'] in SYNC_IDS
                                  for x in h)]
    hsync = rng.sample(hsync, min(len(hsync), 160 if quick else 3000))
    sres = pmap(chunk_sync, [hsync[i::16] for i in range(16) if hsync[i::16]])
    for lst in sres:
        for msg, h in lst:
            v.violation(f'{msg} :: history '
                        f'{[(x["act"], x["f"], x["d"], x["flag"]) for x in h]}'[:600],
                        {'kind': 'sync', 'msg': msg.split(':', 1)[-1].strip()[:30]},
                        replay={'h': h, 'sync': True})
    nontriv = {chash(h) for h in hs
               if any(x['act'] == 'get' and x['exp'] for x in h)}
    v.coverage = {
        'states': max(rp.distinct + r1.distinct + r2.distinct + r3.distinct + r4.distinct, 1),
        'state_coverage_histories': len(h3) + len(h4),
        'sync_histories': len(hsync),
        'transitions': max(rp.generated + r1.generated + r2.generated, 1),
        'traces_validated_against_impl': len(hs),
        'samples': [[(x['act'], x['f'], x['d'], x['flag']) for x in hs[0]]]
        if hs else ['none'],
        'evaluations': len(hs),
        'distinct_nontrivial': len(nontriv),
        'rule': 'behaviours of Tracing.tla replayed with a scripted clock; '
                'non-trivial = contains a query over a non-empty table',
    }
    v.assumptions = ['max_history = 0 is outside the domain (the code treats '
                     '0 like "all"; the spec uses 0 for "unset")',
                     'sync=True: one observed rank plus an environment rank '
                     'that issues the barriers the specification prescribes']
    return v.finish()


def replay(path: str) -> int:
    rec = json.load(open(path))
    if rec['replay'].get('sync'):
        msg = replay_sync(rec['replay']['h'])
        print(msg)
        return 1 if msg else 0
    msg = replay_one(rec['replay']['h'])
    print(msg)
    return 1 if msg else 0
