"""C20: tracing is transparent and its statistics are exact.

spec/Tracing.tla: the global trace table as a state machine (Call with
returns / raises, Get(average, max_history), Clear; two distinct functions
sharing one name) with its properties model-checked by TLC; behaviours
(all maximal paths to the depth bound for a small alphabet, -simulate for the
larger one) are replayed into kfac.tracing with a scripted clock: returned
objects and raised exceptions compared by identity, get_trace compared
exactly.
"""

from __future__ import annotations

import json
import random
from fractions import Fraction
from typing import Any

from harness.common import Verdict, chash
from harness.par import pmap
from harness.progs import instantiate
from harness.tlc import run_tlc, tla

PROP = 'C20'
FUNCS = [(1, 'alpha'), (2, 'beta'), (3, 'alpha')]   # 1 and 3 share a name
UNIT = 1 / 64                                       # dyadic clock unit


class Boom(Exception):
    pass


def replay_one(hist: list[dict[str, Any]]) -> str | None:
    import kfac.tracing as tracing

    clock = {'t': 0.0, 'pending': None}
    real_time = tracing.time

    class FakeTime:
        @staticmethod
        def time() -> float:
            # first call of a pair returns t, second t + duration
            if clock['pending'] is None:
                return clock['t']
            clock['t'] += clock['pending']
            clock['pending'] = None
            return clock['t']

    tracing.time = FakeTime
    try:
        tracing.clear_trace()
        impls: dict[int, Any] = {}
        undecorated: dict[int, Any] = {}
        for fid, name in FUNCS:
            def make(fid=fid):
                def f(obj, dur, raises, *a, **kw):
                    clock['pending'] = dur
                    if raises is not None:
                        raise raises
                    return obj
                return f
            f = make()
            f.__name__ = name
            undecorated[fid] = f
            impls[fid] = tracing.trace()(f)
        for i, rec in enumerate(hist):
            if rec['act'] == 'call':
                dur = rec['d'] * UNIT
                marker = object()
                if rec['raises']:
                    exc = Boom(f'x{i}')
                    try:
                        impls[rec['f']](marker, dur, exc, 1, k=2)
                        return f'op {i}: exception swallowed'
                    except Boom as e:
                        if e is not exc:
                            return f'op {i}: a different exception was raised'
                else:
                    out = impls[rec['f']](marker, dur, None, 1, k=2)
                    if out is not marker:
                        return f'op {i}: return value changed'
            elif rec['act'] == 'get':
                k = None if rec['d'] == 0 else rec['d']
                got = tracing.get_trace(average=bool(rec['raises']),
                                        max_history=k)
                want = {e['name']: Fraction(e['num'], e['den']) * Fraction(UNIT)
                        for e in rec['exp']}
                if set(got) != set(want):
                    return f'op {i}: names {sorted(got)} spec {sorted(want)}'
                if list(got) != [e['name'] for e in rec['exp']]:
                    return f'op {i}: order of names differs'
                for nm, w in want.items():
                    if got[nm] != float(w):  # IEEE division of exact operands
                        return (f'op {i}: get_trace(average='
                                f'{bool(rec["raises"])}, max_history={k})'
                                f'[{nm}] = {got[nm]} spec {float(w)}')
            elif rec['act'] == 'clear':
                tracing.clear_trace()
                if tracing.get_trace() != {}:
                    return f'op {i}: clear_trace left entries'
        return None
    finally:
        tracing.time = real_time
        tracing.clear_trace()


def chunk(hs: list[list[dict]]) -> list[tuple[str, list]]:
    out = []
    for h in hs:
        try:
            msg = replay_one(h)
        except Exception as e:  # noqa: BLE001
            msg = f'exception {type(e).__name__}: {e}'[:300]
        if msg:
            out.append((msg, h))
    return out


def gen(depth: int, funcs: list, durs: list[int], hist: list[int],
        simulate: int | None, seed: int) -> tuple[Any, list]:
    defs = ('Funcs == {' + ', '.join(
        f'[id |-> {i}, name |-> "{n}"]' for i, n in funcs) + '}\n'
        f'Durs == {tla(set(durs))}\nHist == {tla(set(hist))}\n'
        f'MaxDepth == {depth}\n')
    name = 'MC_Tracing'
    mod = instantiate('Tracing', name, defs)
    cfg = 'SPECIFICATION Spec\nCONSTRAINT EmitDone\nCHECK_DEADLOCK FALSE\n'
    if simulate:
        r = run_tlc(name, cfg_text=cfg, extra_modules={name: mod}, workers=1,
                    simulate=f'num={simulate}', depth=depth + 1, seed=seed,
                    deadlock=False, timeout=1800)
    else:
        r = run_tlc(name, cfg_text=cfg, extra_modules={name: mod}, workers=8,
                    deadlock=False, timeout=1800)
    hs = []
    for line in r.stdout.splitlines():
        if line.startswith('"['):
            try:
                hs.append(json.loads(json.loads(line)))
            except Exception:  # noqa: BLE001
                pass
    return r, hs


def main(tier: str, seed: int) -> int:
    v = Verdict(PROP, tier, seed, 'model_checking')
    quick = tier == 'quick'
    name = 'MC_TracingP'
    defs = ('Funcs == {' + ', '.join(
        f'[id |-> {i}, name |-> "{n}"]' for i, n in FUNCS) + '}\n'
        'Durs == {1, 3}\nHist == {0, 1, 2}\n'
        f'MaxDepth == {5 if quick else 6}\n')
    mod = instantiate('Tracing', name, defs)
    rp = run_tlc(name, cfg_text=(
        'SPECIFICATION Spec\nVIEW view\nINVARIANT NoEmptyEntries\n'
        'INVARIANT UniqueKeys\nPROPERTY OneSamplePerCompletedCall\n'
        'PROPERTY TotalGrowsByAtMostOne\nPROPERTY QueriesDoNotChange\n'
        'CHECK_DEADLOCK FALSE\n'), extra_modules={name: mod}, workers=8,
        deadlock=False, timeout=1800)
    if not rp.ok:
        v.violation(f'TLC: {rp.violated} on spec/Tracing.tla\n'
                    f'{rp.error_text[:800]}',
                    {'kind': 'spec', 'inv': str(rp.violated)})
    r1, h1 = gen(4, FUNCS[:2] + FUNCS[2:], [1, 3], [0, 1, 2], None, seed)
    r2, h2 = gen(9 if quick else 14, FUNCS, [1, 2, 5], [0, 1, 2, 3],
                 12 if quick else 300, seed)
    rng = random.Random(seed)
    if len(h1) > (6000 if quick else 10 ** 9):
        h1 = rng.sample(h1, 6000)
    if len(h2) > (3000 if quick else 200000):
        h2 = rng.sample(h2, 3000 if quick else 200000)
    hs = h1 + h2
    n = 48
    res = pmap(chunk, [hs[i::n] for i in range(n) if hs[i::n]])
    for lst in res:
        for msg, h in lst:
            v.violation(f'{msg} :: history '
                        f'{[(x["act"], x["f"], x["d"], x["raises"]) for x in h]}'[:600],
                        {'kind': 'replay', 'msg': msg.split(':', 1)[-1].strip()[:30]},
                        replay={'h': h})
    nontriv = {chash(h) for h in hs
               if any(x['act'] == 'get' and x['exp'] for x in h)}
    v.coverage = {
        'states': max(rp.distinct + r1.distinct + r2.distinct, 1),
        'transitions': max(rp.generated + r1.generated + r2.generated, 1),
        'traces_validated_against_impl': len(hs),
        'samples': [[(x['act'], x['f'], x['d'], x['raises']) for x in hs[0]]]
        if hs else ['none'],
        'evaluations': len(hs),
        'distinct_nontrivial': len(nontriv),
        'rule': 'behaviours of Tracing.tla replayed with a scripted clock; '
                'non-trivial = contains a query over a non-empty table',
    }
    v.assumptions = ['max_history = 0 is outside the domain (the code treats '
                     '0 like "all"; the spec uses 0 for "unset")',
                     'sync=True (torch.distributed.barrier) is not exercised '
                     'here']
    return v.finish()


def replay(path: str) -> int:
    rec = json.load(open(path))
    msg = replay_one(rec['replay']['h'])
    print(msg)
    return 1 if msg else 0
