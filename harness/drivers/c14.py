"""C14: triangular packing of symmetric matrices is lossless.

spec/Triu.tla: PackOrder(n) (row-major upper triangle), its closed-form
position function, the bijection and Unpack(Pack(M)) = M for symmetric M with
position revealing entries, model-checked by TLC for every n up to the bound.
Binding: for every n TLC emits, get_triu of a position revealing matrix must
list exactly PackOrder(n); fill_triu(get_triu(M)) == M bit-wise for every
floating dtype, contiguous and strided inputs; symmetric allreduce /
broadcast / allreduce_bucketed on simdist equal their dense counterparts;
non-square and non-2-D tensors raise NonSquareTensorError with an EMPTY event
trace (rejected before any communication).
"""

from __future__ import annotations

import json
from typing import Any

import torch

from harness import simdist
from harness.common import Verdict
from harness.par import pmap
from harness.progs import instantiate
from harness.tlc import run_tlc

PROP = 'C14'
DTYPES = [torch.float32, torch.float64, torch.bfloat16, torch.float16]


def check_n(d: dict[str, Any]) -> list[str]:
    from kfac.distributed import fill_triu, get_triu

    n = d['n']
    order = [tuple(e) for e in d['order']]
    bad = []
    # position revealing (exact in float64)
    i = torch.arange(1, n + 1).reshape(-1, 1).double()
    j = torch.arange(1, n + 1).reshape(1, -1).double()
    pos = i * (n + 1) + j
    got = get_triu(pos)
    want = torch.tensor([a * (n + 1) + b for a, b in order]).double()
    if got.numel() != n * (n + 1) // 2:
        bad.append(f'n={n}: packed length {got.numel()} != n(n+1)/2')
    elif sorted(got.tolist()) != sorted(want.tolist()):
        bad.append(f'n={n}: packed elements are not the upper triangle')
    elif not torch.equal(got.reshape(-1), want):
        bad.append(f'DRIFT n={n}: packing order differs from Triu.PackOrder '
                   f'(allowed: only losslessness is the property)')
    sym = torch.minimum(i, j) * (n + 1) + torch.maximum(i, j)
    g = torch.Generator().manual_seed(n)
    for dt in DTYPES:
        r = torch.randn(n, n, generator=g).to(dt)
        m = torch.triu(r) + torch.triu(r, 1).t()
        variants = [('contiguous', m)]
        big = torch.zeros(2 * n, 2 * n, dtype=dt)
        big[::2, ::2] = m
        variants.append(('strided', big[::2, ::2]))
        variants.append(('transposed', m.t()))
        # value classes: packing is pure data movement, so it is exact for
        # EVERY representable value (largest finite, subnormal, signed zero,
        # infinities)
        fi = torch.finfo(dt)
        ext = m.clone()
        vals = [fi.max, -fi.max, fi.tiny, -fi.tiny / 2 if dt != torch.bfloat16
                else fi.tiny, 0.0, -0.0, fi.max * 0.75, float('inf'),
                -float('inf'), fi.eps]
        for a in range(n):
            for b in range(a, n):
                x_ = vals[(a * 3 + b) % len(vals)]
                ext[a, b] = x_
                ext[b, a] = x_
        variants.append(('extreme values', ext))
        for nm, x in variants:
            try:
                y = fill_triu(tuple(x.shape), get_triu(x))
            except Exception as e:  # noqa: BLE001
                bad.append(f'n={n} {dt} {nm}: {type(e).__name__}: {e}'[:200])
                continue
            if y.dtype != x.dtype or y.shape != x.shape or \
                    not torch.equal(y, x) or \
                    not torch.equal(torch.signbit(y), torch.signbit(x)):
                bad.append(f'n={n} {dt} {nm}: round trip not exact')
        if n <= 64 or dt == torch.float64:
            s = sym.to(dt) if (n + 1) * (n + 1) < 200 or dt == torch.float64 \
                else None
            if s is not None and not torch.equal(
                    fill_triu((n, n), get_triu(s)), s):
                bad.append(f'n={n} {dt}: position matrix round trip')
    return bad


def comm_case(arg: tuple[int, str, int]) -> list[str]:
    """Symmetric vs dense collectives on simdist; rejection before comm."""
    from kfac.distributed import NonSquareTensorError
    from kfac.distributed import TorchDistributedCommunicator

    n, dtn, seed = arg
    dt = {'float32': torch.float32, 'float64': torch.float64}[dtn]
    bad: list[str] = []
    res: dict[int, dict[str, Any]] = {}

    def body(r: int) -> None:
        g = torch.Generator().manual_seed(seed * 31 + r)
        a = torch.randint(-8, 8, (n, n), generator=g).to(dt)
        m = torch.triu(a) + torch.triu(a, 1).t()
        out: dict[str, Any] = {}
        comm = TorchDistributedCommunicator(bucket_cap_mb=0.001)
        m2 = m * 3 + torch.eye(n, dtype=dt)        # a second matrix, same size
        for sym in (False, True):
            # two same-sized operations in flight before either is awaited
            fa = comm.allreduce(m.clone(), average=False, symmetric=sym)
            fb = comm.allreduce(m2.clone(), average=True, symmetric=sym)
            fc = comm.broadcast(m.clone(), src=0, symmetric=sym)
            fd = comm.broadcast(m2.clone(), src=2, symmetric=sym)
            out[f'fl_d{sym}'] = fd.wait()
            out[f'fl_b{sym}'] = fb.wait()
            out[f'fl_a{sym}'] = fa.wait()
            out[f'fl_c{sym}'] = fc.wait()
            f = comm.allreduce(m.clone(), average=True, symmetric=sym)
            out[f'ar{sym}'] = f.wait()
            f = comm.broadcast(m.clone(), src=1, symmetric=sym)
            out[f'bc{sym}'] = f.wait()
            f1 = comm.allreduce_bucketed(m.clone(), symmetric=sym)
            f2 = comm.allreduce_bucketed(2 * m, average=True, symmetric=sym)
            comm.flush_allreduce_buckets()
            out[f'ab{sym}'] = f1.wait()
            out[f'ab2{sym}'] = f2.wait()
        # a proper sub-group whose group-local ranks differ from the global
        # ones: {1, 2}; the source is given as a GLOBAL rank
        import torch.distributed as dist
        sub = dist.new_group([1, 2])
        if r in (1, 2):
            for src in (1, 2):
                for sym in (False, True):
                    f = comm.broadcast((m * (src + 1)).clone(), src=src,
                                       group=sub, symmetric=sym)
                    out[f'sg{src}{sym}'] = f.wait() if not isinstance(
                        f, torch.Tensor) else f
                    f = comm.allreduce(m.clone(), group=sub, symmetric=sym)
                    out[f'sa{src}{sym}'] = f.wait() if not isinstance(
                        f, torch.Tensor) else f
        res[r] = out

    w = simdist.World(3, simdist.RandomPolicy(seed))
    w.run(body)
    for rs in w.ranks:
        if rs.error is not None:
            bad.append(f'n={n}: {type(rs.error).__name__}: {rs.error}'[:200])
    if w.monitors:
        bad.append(f'n={n}: monitor {w.monitors[0]}'[:200])
    if bad:
        return bad
    for r in range(3):
        for k in ('ar', 'bc', 'ab', 'ab2', 'fl_a', 'fl_b', 'fl_c', 'fl_d'):
            d, s = res[r][f'{k}False'], res[r][f'{k}True']
            if d.dtype != s.dtype or d.shape != s.shape or \
                    not torch.equal(d, s):
                bad.append(f'n={n} {dtn} rank {r}: symmetric {k} differs from '
                           f'dense')
    for r in (1, 2):
        for k in ('sg1', 'sg2', 'sa1', 'sa2'):
            d, s = res[r][f'{k}False'], res[r][f'{k}True']
            if d.dtype != s.dtype or d.shape != s.shape or \
                    not torch.equal(d, s):
                bad.append(f'n={n} {dtn} rank {r}: symmetric {k} in a '
                           f'sub-group differs from dense')
    numels = [e['numel'] for e in w.events
              if e['ev'] == 'issue' and e['rank'] == 0]
    if n * (n + 1) // 2 not in numels:
        bad.append(f'n={n}: no packed transfer of n(n+1)/2 elements observed')
    # rejection before any communication
    for shape in [(n, n + 1), (n + 1, n), (n,), (2, n, n), (1, n, n + 2)]:
        for api in ('allreduce', 'broadcast', 'allreduce_bucketed'):
            raised: dict[int, bool] = {}

            def body2(r: int) -> None:
                comm = TorchDistributedCommunicator(bucket_cap_mb=1.0)
                t = torch.zeros(shape, dtype=dt)
                try:
                    if api == 'broadcast':
                        comm.broadcast(t, src=0, symmetric=True)
                    else:
                        getattr(comm, api)(t, symmetric=True)
                    raised[r] = False
                except NonSquareTensorError:
                    raised[r] = True
                comm.flush_allreduce_buckets()

            w2 = simdist.World(2, simdist.RandomPolicy(seed))
            w2.run(body2)
            if not all(raised.get(r) for r in range(2)):
                bad.append(f'{api} accepted shape {shape} with symmetric=True')
            if any(e['ev'] in ('issue', 'wait') for e in w2.events):
                bad.append(f'{api} shape {shape}: communication took place '
                           f'although the tensor is rejected')
    # ... also when earlier tensors are PENDING in a bucket: the rejected
    # tensor (too large for the rest of the bucket, or of another dtype) must
    # not cause the pending bucket to be communicated
    for shape, bdt in [((30, 20), dt), ((8, 8, 8), dt),
                       ((3, 2), torch.float64 if dt == torch.float32
                        else torch.float32)]:
        state: dict[int, Any] = {}

        def body3(r: int) -> None:
            comm = TorchDistributedCommunicator(bucket_cap_mb=0.001)
            good = torch.eye(10, dtype=dt) * (r + 1)
            f0 = comm.allreduce_bucketed(good, symmetric=True)
            try:
                comm.allreduce_bucketed(torch.zeros(shape, dtype=bdt),
                                        symmetric=True)
                state[r] = 'accepted'
            except NonSquareTensorError:
                state[r] = 'raised'
            w_ = simdist._WORLD
            state[('issued', r)] = sum(
                1 for e in w_.events
                if e['ev'] == 'issue' and e.get('rank') == r)
            comm.flush_allreduce_buckets()
            f0.wait()

        w3 = simdist.World(2, simdist.LazyCompletion(seed))
        w3.run(body3)
        if not all(state.get(r) == 'raised' for r in range(2)):
            bad.append(f'allreduce_bucketed accepted shape {shape} with a '
                       f'pending bucket')
        elif any(state.get(('issued', r), 0) for r in range(2)):
            bad.append(f'allreduce_bucketed shape {shape} {bdt}: the pending '
                       f'bucket was communicated although the tensor is '
                       f'rejected')
    return bad


def main(tier: str, seed: int) -> int:
    v = Verdict(PROP, tier, seed, 'model_checking')
    maxn = 24 if tier == 'quick' else 40
    name = 'MC_Triu'
    mod = instantiate('Triu', name, f'MaxN == {maxn}\n')
    cfg = ('SPECIFICATION Spec\nINVARIANT LengthOK\nINVARIANT Bijection\n'
           'INVARIANT RoundTrip\nINVARIANT LowerIgnored\nINVARIANT Emit\n'
           'CHECK_DEADLOCK FALSE\n')
    r = run_tlc(name, cfg_text=cfg, extra_modules={name: mod}, workers=4,
                deadlock=False, timeout=1800)
    if not r.ok:
        v.violation(f'TLC: {r.violated} on spec/Triu.tla\n{r.error_text[:800]}',
                    {'kind': 'spec', 'inv': str(r.violated)})
    ds = []
    for line in r.stdout.splitlines():
        if line.startswith('"{'):
            try:
                ds.append(json.loads(json.loads(line)))
            except Exception:  # noqa: BLE001
                pass
    # beyond TLC's bound the order is given by the closed form checked by TLC
    extra = [33, 64, 65, 100, 127, 128] if tier == 'quick' else \
        list(range(maxn + 1, 130)) + [200, 256, 257, 400, 512]
    for n in extra:
        ds.append({'n': n, 'order': [[i, j] for i in range(1, n + 1)
                                     for j in range(i, n + 1)]})
    res = pmap(check_n, ds)
    for d, lst in zip(ds, res):
        for b in lst:
            if b.startswith('DRIFT'):
                v.note('model-drift: ' + b)
                continue
            v.violation(b, {'kind': 'pack', 'msg': b.split(':')[-1].strip()[:40]},
                        replay={'n': d['n']})
    cases = [(n, dt, seed + n) for n in ([1, 2, 3, 5, 8] if tier == 'quick'
                                          else [1, 2, 3, 4, 5, 7, 8, 12, 16, 33])
             for dt in ('float32', 'float64')]
    cres = pmap(comm_case, cases)
    for c, lst in zip(cases, cres):
        for b in lst:
            v.violation(b, {'kind': 'comm', 'msg': b.split(':')[-1].strip()[:40]},
                        replay={'case': c})
    v.coverage = {
        'states': max(r.distinct, 1), 'transitions': max(r.generated, 1),
        'traces_validated_against_impl': len(ds) + len(cases),
        'samples': [{'n': 3, 'order': [[1, 1], [1, 2], [1, 3], [2, 2],
                                       [2, 3], [3, 3]]}],
        'evaluations': len(ds) * len(DTYPES) * 3 + len(cases) * 23,
        'distinct_nontrivial': len([d for d in ds if d['n'] >= 2]),
        'rule': 'one case per matrix size n (x 4 dtypes x 3 memory layouts); '
                'non-trivial = n >= 2',
        'exhaustive': True, 'tlc_max_n': maxn, 'sizes_beyond_tlc': extra,
        'comm_cases': len(cases),
    }
    v.assumptions = ['for n above the TLC bound PackOrder is generated in '
                     'python from the same definition (row-major upper '
                     'triangle); dtypes: float32, float64, bfloat16, float16']
    return v.finish()


def replay(path: str) -> int:
    rec = json.load(open(path))
    rp = rec['replay']
    if 'case' in rp:
        out = comm_case(tuple(rp['case']))
    else:
        n = rp['n']
        out = check_n({'n': n, 'order': [[i, j] for i in range(1, n + 1)
                                         for j in range(i, n + 1)]})
    print(out)
    return 1 if out else 0
