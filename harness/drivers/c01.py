"""C01: the preconditioned gradient solves the damped Kronecker-factored
system.

spec/KfacRef.tla determines, for every step of every history, WHICH factors
(version), WHICH damping (refresh-time for inverse / pre-divided eigen,
use-time for plain eigen) and WHICH clip scale enter the step:
grad = Scale(nu, Pre(Inv(A, G, damp), dampUse, Raw)).  TLC enumerates the
behaviours (several steps per run, refresh and stale steps); the replay drives
the real KFACPreconditioner over a lattice of {linear, conv (rectangular
kernel, stride, padding), N-d linear input, bias on/off} x {inverse, eigen,
eigen pre-divided} x parameter/factor/inverse dtypes and checks, for every
registered layer at every step, (i) the final gradient against the float64
solution of the defining system (Kronecker form, factors taken PSD for the
eigen method) times nu, and (ii) the residual of the defining system for the
implementation's own V = grad / nu.
"""

from __future__ import annotations

import json

from harness import kaisa, refreplay, reffam
from harness.common import Verdict

PROP = 'C01'
CATS = {'grad', 'raise'}


def families(tier: str) -> list[dict]:
    quick = tier == 'quick'
    d = 6 if quick else 8
    base = dict(W=1, k=1, F=1, kl_clip=0.01, lr=0.1)
    fams = []
    methods = [('inverse', False), ('eigen', False), ('eigen', True)]
    models = ['mlp2', 'conv2', 'nd', 'mlp2nb', 'conv', 'mlp3']
    dtypes = [
        dict(param_dtype='float32'),
        dict(param_dtype='float64'),
        dict(param_dtype='float64', factor_dtype='float64',
             inv_dtype='float64'),
        dict(param_dtype='float32', factor_dtype='float64'),
        dict(param_dtype='bfloat16', factor_dtype='float32'),
        dict(param_dtype='float32', inv_dtype='float64'),
    ]
    dampings = [0.05, 0.2, 'damp_lin', 0.02]
    decays = [0.9, 0.5, 1.0, 'decay_lin']
    i = 0
    for mi, (method, prediv) in enumerate(methods):
        for mo, model in enumerate(models):
            if quick and (mo + mi) % 2 == 1:
                continue
            dt = dtypes[i % len(dtypes)]
            c = dict(base, method=method, prediv=prediv, model=model,
                     damping=dampings[i % 4], decay=decays[(i // 2) % 4],
                     I=1 + i % 2, **dt)
            if model in ('conv', 'conv2') and dt.get('param_dtype') == 'bfloat16':
                c.update(param_dtype='float32', factor_dtype=None)
            if i % 4 == 3:
                # AMP: a loss scale is in use (constant or dynamic); the
                # gradients handed to step() are unscaled
                c.update(grad_scaler=[256.0, 'dyn8'][(i // 4) % 2])
            fams.append(reffam.fam(
                c, ['Train', 'Step'] if quick else ['Train', 'Step', 'Eval'], d))
            i += 1
    return fams


def main(tier: str, seed: int) -> int:
    v = Verdict(PROP, tier, seed, 'model_checking')
    fams = families(tier)

    def prefer(h):
        return sum(x['act'] == 'step' for x in h)

    agg = reffam.run_families(
        fams, seed, max_replay=24 if tier == 'quick' else 400, prefer=prefer,
        do_spec=(tier != 'quick'),
        nseeds=1 if tier == 'quick' else 6)
    reffam.report(v, agg, fams, CATS)
    v.coverage['rule'] += ('; for C01 each compared step checks every '
                           'registered layer against the float64 solution '
                           'and the residual of the defining system')
    v.assumptions = [
        'real-valued inputs (weights, batches) are sampled, one seed per run; '
        'tolerance 2e-4 relative scaled by conditioning (bf16: x400)',
        'dtypes limited to those with CPU kernels: float32, float64, '
        'bfloat16 parameters with float32 factors',
    ]
    return v.finish()


def replay(path: str) -> int:
    rec = json.load(open(path))
    rp = rec['replay']
    out = refreplay.replay(kaisa.Config(**rp['cfg']), rp['h'], rec['seed'])
    print(json.dumps(out['mismatches'], indent=1, default=str)[:3000])
    return 1 if out['mismatches'] else 0
