"""C01: the preconditioned gradient solves the damped Kronecker-factored
system.

spec/KfacRef.tla determines, for every step of every history, WHICH factors
(version), WHICH damping (refresh-time for inverse / pre-divided eigen,
use-time for plain eigen) and WHICH clip scale enter the step:
grad = Scale(nu, Pre(Inv(A, G, damp), dampUse, Raw)).  TLC enumerates the
behaviours (several steps per run, refresh and stale steps); the replay drives
the real KFACPreconditioner over a lattice of {linear, conv (rectangular
kernel, stride, padding), N-d linear input, bias on/off} x {inverse, eigen,
eigen pre-divided} x parameter/factor/inverse dtypes and checks, for every
registered layer at every step, (i) the final gradient against the float64
solution of the defining system (Kronecker form, factors taken PSD for the
eigen method) times nu, and (ii) the residual of the defining system for the
implementation's own V = grad / nu.
"""

from __future__ import annotations

import json

from harness import kaisa, refreplay, reffam
from harness.common import Verdict

PROP = 'C01'
CATS = {'grad', 'raise'}


def families(tier: str) -> list[dict]:
    quick = tier == 'quick'
    d = 6 if quick else 8
    base = dict(W=1, k=1, F=1, kl_clip=0.01, lr=0.1)
    fams = []
    methods = [('inverse', False), ('eigen', False), ('eigen', True)]
    models = ['mlp2', 'conv2', 'nd', 'mlp2nb', 'conv', 'mlp3']
    dtypes = [
        dict(param_dtype='float32'),
        dict(param_dtype='float64'),
        dict(param_dtype='float64', factor_dtype='float64',
             inv_dtype='float64'),
        dict(param_dtype='float32', factor_dtype='float64'),
        dict(param_dtype='bfloat16', factor_dtype='float32'),
        dict(param_dtype='float32', inv_dtype='float64'),
    ]
    dampings = [0.05, 0.2, 'damp_lin', 0.02]
    decays = [0.9, 0.5, 1.0, 'decay_lin']
    i = 0
    for mi, (method, prediv) in enumerate(methods):
        for mo, model in enumerate(models):
            if quick and (mo + mi) % 2 == 1:
                continue
            dt = dtypes[i % len(dtypes)]
            c = dict(base, method=method, prediv=prediv, model=model,
                     damping=dampings[i % 4], decay=decays[(i // 2) % 4],
                     I=1 + i % 2, **dt)
            if model in ('conv', 'conv2') and dt.get('param_dtype') == 'bfloat16':
                c.update(param_dtype='float32', factor_dtype=None)
            if i % 4 == 3:
                # AMP: a loss scale is in use (constant or dynamic); the
                # gradients handed to step() are unscaled
                c.update(grad_scaler=[256.0, 'dyn8'][(i // 4) % 2])
            fams.append(reffam.fam(
                c, ['Train', 'Step'] if quick else ['Train', 'Step', 'Eval'], d))
            i += 1
    return fams


def direct(case: dict) -> list[dict]:
    """The statement itself on real executions whose running factors are NOT
    positive semi-definite (restored from a checkpoint through the public
    state_dict round trip): after each step, grad = V where V solves the
    defining system for the layer's CURRENT factors as state_dict() reports
    them -- taken positive semi-definite for the eigen method -- and the
    gradient handed to step().  kl_clip=None, so nu = 1."""
    import torch
    from harness.terms import Interp

    method, prediv = case['method'], case['prediv']
    cfg = kaisa.Config(W=1, k=1, method=method, prediv=prediv, kl_clip=None,
                       lr=0.1, model=case['model'], damping=case['damping'],
                       decay=0.5, sgd_lr=0.0, F=1, I=1)
    hist = [['train', 1], ['step'],
            ['indef', case['c'], case['which'], 'alt'],
            ['train', 1], ['step'], ['train', 1], ['step']]
    log: list[dict] = []

    def hooks(rr):
        orig = rr.pre.step

        def step():
            orig()
            log.append({n: {k: t.clone().double() for k, t in d.items()}
                        for n, d in rr.pre.state_dict()['layers'].items()})
        rr.pre.step = step

    res = kaisa.run(cfg, hist, None, seed=case['seed'], on_rank=hooks)
    if any(res.errors):
        return [{'what': f'execution failed: {[e for e in res.errors if e][0]}'
                 [:300], 'sig': {'cat': 'raise'}}]
    out = []
    rr = res.ranks[0]
    steps = [s for s in rr.snaps if 'pre_grads' in s]
    mods = dict(rr.model.named_modules())
    mname = {('inverse', False): 'inverse', ('eigen', False): 'eigen',
             ('eigen', True): 'eigen_prediv'}[(method, prediv)]
    neg = 0
    for si, (s, facs) in enumerate(zip(steps, log)):
        for name, f in facs.items():
            mod = mods[name]
            raw = s['pre_grads']
            d = raw[f'{name}.weight'].double().reshape(f['G'].shape[0], -1)
            if getattr(mod, 'bias', None) is not None:
                d = torch.cat([d, raw[f'{name}.bias'].double().reshape(-1, 1)], 1)
            if mname == 'inverse' and si > 0:
                continue      # (G + damping I) is singular or indefinite: the
                # statement only fixes V where the system is well posed
            neg += int(torch.linalg.eigvalsh(f['G']).min() < -1e-3) + \
                int(torch.linalg.eigvalsh(f['A']).min() < -1e-3)
            v = Interp.solve(Interp, f['A'], f['G'], d, mname,
                             case['damping'], case['damping'])
            got = s['grads'][f'{name}.weight'].double().reshape(
                f['G'].shape[0], -1)
            if getattr(mod, 'bias', None) is not None:
                got = torch.cat(
                    [got, s['grads'][f'{name}.bias'].double().reshape(-1, 1)], 1)
            e = refreplay.rel(got, v)
            if e > 5e-4:
                out.append({'what': f'step {si} layer {name}: gradient is not '
                            f'the solution of the defining system for the '
                            f'current (indefinite) factors taken PSD: rel '
                            f'{e:.2e}', 'sig': {'cat': 'grad', 'sub': 'indef'}})
    out.append({'what': '', 'sig': {'cat': 'info_negative', 'n': neg}})
    return out


def main(tier: str, seed: int) -> int:
    v = Verdict(PROP, tier, seed, 'model_checking')
    fams = families(tier)

    def prefer(h):
        return sum(x['act'] == 'step' for x in h)

    agg = reffam.run_families(
        fams, seed, max_replay=24 if tier == 'quick' else 400, prefer=prefer,
        do_spec=(tier != 'quick'),
        nseeds=1 if tier == 'quick' else 6)
    reffam.report(v, agg, fams, CATS)
    from harness.par import pmap
    cases = []
    for i, (method, prediv) in enumerate(
            [('eigen', True), ('eigen', False), ('inverse', False)]):
        for j, which in enumerate(['G', 'A', 'AG']):
            if tier == 'quick' and (i + j) % 2 == 1 and method != 'eigen':
                continue
            cases.append(dict(method=method, prediv=prediv, which=which,
                              c=[0.5, 2.0][(i + j) % 2], damping=0.05,
                              model=['mlp2', 'mixb', 'conv'][(i + j) % 3],
                              seed=seed + i))
    negs = 0
    for c, lst in zip(cases, pmap(direct, cases)):
        for b in lst:
            if b['sig'].get('cat') == 'info_negative':
                negs += b['sig']['n']
                continue
            v.violation(f'{b["what"]} :: {c}', b['sig'],
                        replay={'direct': c})
    v.coverage['indefinite_factor_cases'] = len(cases)
    v.coverage['indefinite_factors_seen'] = negs
    v.coverage['rule'] += ('; for C01 each compared step checks every '
                           'registered layer against the float64 solution '
                           'and the residual of the defining system')
    v.assumptions = [
        'real-valued inputs (weights, batches) are sampled, one seed per run; '
        'tolerance 2e-4 relative scaled by conditioning (bf16: x400)',
        'dtypes limited to those with CPU kernels: float32, float64, '
        'bfloat16 parameters with float32 factors',
    ]
    return v.finish()


def replay(path: str) -> int:
    rec = json.load(open(path))
    rp = rec['replay']
    if 'direct' in rp:
        r = direct(rp['direct'])
        print(json.dumps(r, indent=1)[:2000])
        return 1 if any(b['what'] for b in r) else 0
    out = refreplay.replay(kaisa.Config(**rp['cfg']), rp['h'], rec['seed'])
    print(json.dumps(out['mismatches'], indent=1, default=str)[:3000])
    return 1 if out['mismatches'] else 0
