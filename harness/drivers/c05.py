"""C05: update intervals and hyper-parameter schedules are honoured over any
history.  spec/KfacRef.tla action properties checked by TLC exhaustively to a
depth; every behaviour TLC generates (exhaustive path enumeration for small
alphabets, -simulate for the wide one) is replayed in lock step into the real
KFACPreconditioner and after every action steps, all six hyper-parameters,
factors, refresh events (torch.linalg calls) and the step's gradients are
compared with the specification's expectation (terms interpreted in float64).
"""

from __future__ import annotations

import json

from harness import kaisa, refreplay, reffam
from harness.common import Verdict

PROP = 'C05'
CATS = None  # every category


def families(tier: str) -> list[dict]:
    base = dict(W=1, k=1, model='mlp2', prediv=False, method='eigen')
    fams = []
    quick = tier == 'quick'
    d = 6 if quick else 7
    pairs = [(1, 1), (1, 2), (2, 3), (3, 2), ('int_1_2', 'int_2_1'),
             (2, 'int_1_3')]
    if not quick:
        pairs += [(2, 2), (1, 3), (3, 3), ('int_2_1', 'int_1_2')]
    for i, (F, I) in enumerate(pairs):
        for in_hook in (True, False):
            accum = 1 + (i + int(in_hook)) % 2
            c = dict(base, F=F, I=I, in_hook=in_hook, accum=accum)
            if i % 3 == 0:
                c.update(damping='damp_lin', decay='decay_lin',
                         kl_clip='kl_lin', lr='lr_lin')
            if i % 3 == 1:
                c.update(method='inverse')
            if i % 3 == 2:
                c.update(prediv=True, damping='damp_lin')
            fams.append(reffam.fam(c, ['Train', 'Step', 'Eval'], d,
                                   micro=sorted({1, accum})))
    # scheduler-driven changes between steps
    sc = dict(base, F=1, I=2, in_hook=True, accum=1,
              sched={'factor_update_steps': 'dbl_after1',
                     'inv_update_steps': 'dbl',
                     'damping': 'half', 'factor_decay': 'step_pow',
                     'kl_clip': 'dbl', 'lr': 'half'})
    fams.append(reffam.fam(sc, ['Train', 'Step', 'Sched'], d,
                           sched_args=[-1, 0, 3]))
    sc2 = dict(base, F=2, I=2, in_hook=False, accum=1, method='inverse',
               sched={'inv_update_steps': 'dbl_after1', 'damping': 'dbl'})
    fams.append(reffam.fam(sc2, ['Train', 'Step', 'Sched', 'Eval'],
                           d - 1, sched_args=[-1, 1]))
    # reset / forward-only / checkpoint interleavings
    rc = dict(base, F=1, I=2, in_hook=True, accum=2)
    fams.append(reffam.fam(rc, ['Train', 'Step', 'Reset', 'FwdOnly'], d - 1,
                           micro=[1, 2]))
    rc2 = dict(base, F=2, I=1, in_hook=False, accum=1, damping='damp_lin')
    fams.append(reffam.fam(rc2, ['Train', 'Step', 'Reset', 'FwdOnly'], d - 1))
    ck = dict(base, F=1, I=3, in_hook=True, accum=1, prediv=True)
    fams.append(reffam.fam(ck, ['Train', 'Step', 'Save', 'Load'], d + 1,
                           save_args=(True,), load_args=(True,)))
    ck2 = dict(base, F=1, I=2, in_hook=False, accum=1, method='inverse')
    fams.append(reffam.fam(ck2, ['Train', 'Step', 'Save', 'Load'], d + 1,
                           save_args=(True,), load_args=(True,)))
    # the wide alphabet by simulation
    wide = dict(base, F=2, I=3, in_hook=True, accum=2, damping='damp_lin',
                sched={'lr': 'half'})
    fams.append(reffam.fam(
        wide, ['Train', 'Step', 'Eval', 'Reset', 'FwdOnly', 'Save', 'Load',
               'Mem', 'Sched'], 12 if quick else 16, micro=[1, 2],
        exhaustive=False, num=60 if quick else 2000, spec_depth=6))
    # marathons: few but LONG behaviours (15-30 steps, several checkpoint /
    # resume cycles, intervals that do not divide one another) -- deviations
    # that need a long history (a counter crossing a threshold, a cache going
    # stale) are out of reach of the exhaustive depth
    L = 40 if quick else 110
    m1 = dict(base, F=3, I=5, in_hook=True, accum=2, damping='damp_lin',
              decay='expdecay')
    fams.append(reffam.fam(m1, ['Train', 'Step', 'Eval'], L, micro=[1, 2],
                           exhaustive=False, num=2 if quick else 40,
                           spec_depth=5))
    m2 = dict(base, F='int_1_3', I=4, in_hook=False, accum=1,
              method='inverse', kl_clip='kl_lin', lr='lr_lin')
    fams.append(reffam.fam(m2, ['Train', 'Step', 'Save', 'Load'], L,
                           exhaustive=False, num=2 if quick else 40,
                           spec_depth=5, save_args=(True,),
                           load_args=(True, False)))
    # (only float parameters are scheduled here: an interval doubled on every
    # scheduler step of a long behaviour leaves TLC's 32-bit integers)
    m3 = dict(base, F=2, I=2, in_hook=True, accum=1, prediv=True,
              sched={'damping': 'half', 'lr': 'half'})
    fams.append(reffam.fam(m3, ['Train', 'Step', 'Sched', 'Reset'], L,
                           sched_args=[-1], exhaustive=False,
                           num=2 if quick else 30, spec_depth=5))
    # histories of a LONG-RUNNING job: the step counter starts far from zero
    # (restored from a state that carries only the counters) and crosses
    # 2**8, 2**16, 10**6 during the behaviour
    for s0, F, I, acc, hook in ((254, 1, 2, 2, True), (65532, 2, 4, 1, False),
                                (999999, 1, 3, 2, True)):
        cz = dict(base, F=F, I=I, in_hook=hook, accum=acc, steps0=s0,
                  damping=0.05, decay=0.9)
        fams.append(reffam.fam(cz, ['Train', 'Step'], 16 if quick else 40,
                               micro=[acc], exhaustive=False,
                               num=2 if quick else 12, spec_depth=4))
    # resumed long-running job with CALLABLE intervals whose value at the
    # restored step differs from the value at small steps
    for s0 in (64, 1024):
        cz = dict(base, F='int_1_2', I='int_2_1', in_hook=True, accum=1,
                  steps0=s0)
        fams.append(reffam.fam(cz, ['Train', 'Step'], 10, micro=[1],
                               exhaustive=False, num=2, spec_depth=4))
    # directed long histories (scripts): a USED instance is rolled back to an
    # early checkpoint after many steps (load_state_dict into the same
    # object), with callable hyper-parameters
    def ts(n: int) -> list:
        return [('train', 1), ('step', 0)] * n
    scripts = [(18, True, dict(damping='damp_lin', decay='decay_lin'))]
    if not quick:
        scripts.append((34, False, dict(damping='damp_lin', F=1, I=1,
                                        kl_clip='kl_lin', lr='lr_lin')))
        scripts.append((70, True, dict(damping='damp_lin', F='int_1_3', I=2)))
    # roll back to a checkpoint taken at step 0 (before anything happened)
    cz0 = dict(base, F=2, I=2, in_hook=True, accum=1, damping='damp_lin')
    sc0 = [('save', True)] + ts(3) + [('rollback', False)] + ts(3)
    fams.append(reffam.fam(cz0, ['Train', 'Step', 'Save', 'Rollback'],
                           len(sc0), micro=[1], exhaustive=True, spec_depth=4,
                           script=sc0, save_args=(True,),
                           load_args=(True, False)))
    # checkpoint round trips INSIDE an accumulation window / between the
    # passes and the step (same instance): pending batch statistics and the
    # micro-step counter survive the load
    for hook, acc in ((True, 2), (False, 1), (False, 2)):
        cw = dict(base, F=1, I=1, in_hook=hook, accum=acc)
        fams.append(reffam.fam(cw, ['Train', 'Step', 'Save', 'Rollback'],
                               6 if quick else 7, micro=[1],
                               save_args=(True,), load_args=(True, False)))
    for nlate, comp, extra in scripts:
        cz = dict(base, F=extra.pop('F', 2), I=extra.pop('I', 3),
                  in_hook=True, accum=1, **extra)
        sc = ts(3) + [('save', True)] + ts(nlate) + [('rollback', comp)] + ts(3)
        fams.append(reffam.fam(cz, ['Train', 'Step', 'Save', 'Rollback'],
                               len(sc), micro=[1], exhaustive=True,
                               spec_depth=4, script=sc, save_args=(True,),
                               load_args=(True, False)))
    return fams


def _random_traces(arg: tuple[int, int]) -> list[dict]:
    from harness import tracecheck
    return tracecheck.random_driver(arg[0], arg[1])


def main(tier: str, seed: int) -> int:
    v = Verdict(PROP, tier, seed, 'model_checking')
    fams = families(tier)
    def prefer(h: list[dict]) -> int:
        # behaviours in which a hyper-parameter changes (scheduler step,
        # load, roll-back) BETWEEN a forward pass and the next training
        # pass / step are the ones where "evaluated at the current step"
        # can go wrong; then more steps
        acts = [x['act'] for x in h]
        sc = 0
        for i, a in enumerate(acts):
            if a in ('sched', 'load', 'rollback') and i > 0 and \
                    acts[i - 1] in ('train', 'eval', 'fwdonly') and \
                    any(b in ('train', 'step') for b in acts[i + 1:]):
                sc += 3
        return sc + acts.count('step')

    agg = reffam.run_families(
        fams, seed, max_replay=220 if tier == 'quick' else 6000,
        nseeds=1 if tier == 'quick' else 2, prefer=prefer)
    reffam.report(v, agg, fams, CATS)
    # ---- direction B: traces of drivers that know nothing about the
    # specification (the repository's own training loop, random API drivers
    # with resumes), recorded from outside and validated by TLC against
    # spec/KfacTrace.tla (every event a KfacRef action + the logged
    # observation; KfacRef's temporal properties on the accepted behaviour)
    from harness import tracecheck
    from harness.par import pmap
    recs = tracecheck.run_repo_training_loop()
    nrand = 14 if tier == 'quick' else 240
    for lst in pmap(_random_traces, [(seed * 1000 + i, 40 if tier == 'quick'
                                      else 70) for i in range(nrand)]):
        recs += lst
    tv = tracecheck.validate(recs, f's{seed}')
    for rj in tv['rejected'][:8]:
        ev = rj['event'] or {}
        v.violation(
            f'recorded execution is not a behaviour of KfacRef: event '
            f'{rj["at"]} ({ev.get("act")}, arg {ev.get("arg")}) observed '
            f'{ {k: ev.get(k) for k in ("steps", "chA", "chG", "accA", "accG", "hasInv", "ndec", "raised", "uniform")} } '
            f'is not explained by any action after {rj["prefix"]} :: '
            f'instance {rj["cfg"]}',
            {'kind': 'trace', 'act': ev.get('act'),
             'fields': [k for k in ('chA', 'chG', 'hasInv') if ev.get(k)]},
            replay={'trace_cfg': rj['cfg'],
                    'events': recs[rj['trace']]['events']})
    v.coverage['traces_recorded_from_impl'] = tv['traces']
    v.coverage['trace_events_validated'] = tv['events']
    v.coverage['trace_unsupported'] = len(tv['skipped'])
    v.coverage['states'] = v.coverage.get('states', 0) + tv['states']
    v.coverage['transitions'] = v.coverage.get('transitions', 0) \
        + tv['transitions']
    v.assumptions = [
        'usage assumption UsageOK: a step is only taken when gradients exist',
        'float comparison by relative error against an independent float64 '
        'interpretation (tolerance scaled by conditioning)',
    ]
    return v.finish()


def replay(path: str) -> int:
    rec = json.load(open(path))
    rp = rec['replay']
    if 'events' in rp:
        from harness import tracecheck
        tv = tracecheck.validate([{'cfg': rp['trace_cfg'],
                                   'events': rp['events'],
                                   'supported': True, 'why': ''}], 'rp')
        print(json.dumps(tv['rejected'], indent=1, default=str)[:3000])
        return 1 if tv['rejected'] else 0
    out = refreplay.replay(kaisa.Config(**rp['cfg']), rp['h'], rec['seed'])
    print(json.dumps(out['mismatches'], indent=1)[:3000])
    return 1 if out['mismatches'] else 0
