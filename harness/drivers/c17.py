"""C17: greedy work assignment is complete, confined, balanced, deterministic.

Spec: spec/KfacAssign.tla (Greedy + InvGreedy) model-checked by TLC over the
argument space generated as a behaviour (Mode "greedy": every labelling of the
ranks into <= 3 groups, members ascending/descending, colocate on/off, up to
MaxL layers of 1..3 factors with costs from Costs).  Binding (A): every tuple
TLC enumerated is replayed into the real KAISAAssignment.greedy_assignment and
the placement must be exactly the specification's.  Beyond TLC's scope (many
layers, float costs) random instances are checked against the *properties*
only (no second implementation).
"""

from __future__ import annotations

import json
import random
from typing import Any

from harness import assign
from harness.common import Verdict, chash

PROP = 'C17'


def check_tuple(tp: dict[str, Any]) -> str | None:
    from kfac.assignment import KAISAAssignment

    t = tp['t']
    work = assign.work_dict(t['work'])
    groups = [list(g) for g in t['groups']]
    got = KAISAAssignment.greedy_assignment(work, groups, t['W'],
                                            t['colocate'])
    got2 = KAISAAssignment.greedy_assignment(
        {k: dict(v) for k, v in work.items()}, [list(g) for g in groups],
        t['W'], t['colocate'])
    if got != got2:
        return f'non-deterministic: {got} vs {got2}'
    exp = {
        l['name']: {x['f']: tp['asg'][i][j] for j, x in enumerate(l['fs'])}
        for i, l in enumerate(t['work'])
    }
    if got != exp:
        if assign.valid_greedy(work, groups, t['W'], t['colocate'], got):
            return 'DRIFT tie-breaking differs from KfacAssign.Greedy (allowed)'
        return f'placement differs: code {got} spec {exp}'
    if list(got.keys()) != [l['name'] for l in t['work']]:
        return 'layer keys differ'
    return None


def props_only(work: dict[str, dict[str, float]], groups: list[list[int]],
               W: int, colocate: bool) -> str | None:
    """C17's clauses evaluated on the returned placement (no re-implementation
    of the algorithm): completeness, confinement, balance bound."""
    from kfac.assignment import KAISAAssignment

    res = KAISAAssignment.greedy_assignment(work, groups, W, colocate)
    res2 = KAISAAssignment.greedy_assignment(work, groups, W, colocate)
    if res != res2:
        return 'non-deterministic'
    valid = {r for g in groups for r in g}
    loads = [0.0] * W
    for l, fs in work.items():
        if set(res.get(l, {})) != set(fs):
            return f'layer {l}: factors {set(res.get(l, {}))} != {set(fs)}'
        ws = set(res[l].values())
        if not ws <= valid:
            return f'layer {l}: invalid worker {ws}'
        if fs and not any(ws <= set(g) for g in groups):
            return f'layer {l}: workers {ws} span groups'
        if colocate and len(ws) > 1:
            return f'layer {l}: not colocated {ws}'
        for f, c in fs.items():
            loads[res[l][f]] += c
    if set(res) != set(work):
        return 'layers differ'
    if not work:
        return None
    max_layer = max(sum(fs.values()) for fs in work.values())
    items = [c for fs in work.values() for c in fs.values()]
    max_item = max_layer if colocate else (max(items) if items else 0)
    gl = [sum(loads[w] for w in g) for g in groups]
    eps = 1e-9 * (1 + max(gl))
    if max(gl) - min(gl) > max_layer + eps:
        return f'group loads {gl} differ by more than {max_layer}'
    for g in groups:
        lw = [loads[w] for w in g]
        if max(lw) - min(lw) > max_item + eps:
            return f'worker loads {lw} differ by more than {max_item}'
    return None


def random_instances(n: int, seed: int) -> tuple[int, list[dict]]:
    rng = random.Random(seed)
    bad = []
    for i in range(n):
        W = rng.randint(1, 24)
        ranks = list(range(W))
        rng.shuffle(ranks)
        used = ranks[: rng.randint(1, W)]
        ng = rng.randint(1, min(6, len(used)))
        cuts = sorted(rng.sample(range(1, len(used)), ng - 1)) if ng > 1 else []
        groups = [used[a:b] for a, b in zip([0] + cuts, cuts + [len(used)])]
        L = rng.randint(0, 40)
        scale = rng.choice([1, 10, 1e6, 1e-3])
        kind = rng.choice(['int', 'float', 'ties', 'zeros', 'cubes'])
        if kind == 'cubes':
            # n**3 cost model of a network mixing very wide and tiny layers:
            # a cost range of 1 : 1e11, all sums exact in float64
            L = rng.randint(2, 9)
        work = {}
        for li in range(L):
            nf = rng.randint(1, 3)
            fs = {}
            for f in 'AGH'[:nf]:
                if kind == 'int':
                    c: float = rng.randint(0, 50)
                elif kind == 'float':
                    c = rng.random() * scale
                elif kind == 'cubes':
                    c = float(rng.choice([2, 3, 4, 5, 6, 4096, 8192, 8192])
                              ** 3)
                elif kind == 'ties':
                    c = rng.choice([1, 2])
                else:
                    c = rng.choice([0, 0, 3])
                fs[f] = c
            work[f'layer{li}'] = fs
        colocate = rng.random() < 0.5
        msg = props_only(work, groups, W, colocate)
        if not msg and kind in ('cubes', 'int', 'ties') and 1 <= L <= 9 \
                and sum(len(fs) for fs in work.values()) <= 14:
            # the greedy rule itself, with exact arithmetic and any
            # tie-breaking (never "almost least loaded")
            from harness import assign
            from kfac.assignment import KAISAAssignment
            res = KAISAAssignment.greedy_assignment(work, groups, W, colocate)
            if not assign.valid_greedy(work, groups, W, colocate, res):
                msg = ('greedy: placement is not an outcome of the least-'
                       f'loaded rule under any tie-breaking: {res}')
        if msg:
            bad.append({'work': work, 'groups': groups, 'W': W,
                        'colocate': colocate, 'msg': msg})
    return n, bad


def main(tier: str, seed: int) -> int:
    v = Verdict(PROP, tier, seed, 'model_checking')
    if tier == 'quick':
        scopes = [(3, 2, [0, 1, 2], [1, 2, 3]), (3, 3, [0, 1, 2], [2])]
    else:
        scopes = [(4, 2, [0, 1, 2, 3, 7], [1, 2, 3]),
                  (4, 3, [0, 1, 3], [2]), (3, 4, [0, 1, 2], [1, 2])]
    from concurrent.futures import ThreadPoolExecutor

    import os
    import tempfile
    sdir = tempfile.mkdtemp(prefix='verif_c17_')
    with ThreadPoolExecutor(max_workers=3) as ex:
        runs = list(ex.map(
            lambda a: assign.run_assign(
                'greedy', a[1][0], a[1][1], a[1][2], {}, nf=a[1][3],
                workers=5, timeout=7200,
                stream_to=os.path.join(sdir, f'emit{a[0]}.txt')),
            list(enumerate(scopes))))
    distinct = generated = 0
    for r, _ in runs:
        if not r.ok:
            v.violation(f'TLC: {r.violated} on spec/KfacAssign.tla (greedy)\n'
                        f'{r.error_text[:1500]}',
                        {'kind': 'spec', 'inv': str(r.violated)})
        distinct += r.distinct
        generated += r.generated

    def all_tuples():
        for _, it in runs:
            yield from it

    class R:
        pass
    r = R()
    r.distinct, r.generated = distinct, generated
    maxw, maxl, costs = scopes[0][0], max(s[1] for s in scopes), scopes[0][2]
    bad = 0
    drift = 0
    nontrivial = set()
    ntuples = 0
    sample = None
    tie_tuples = []
    import random as _r
    rs = _r.Random(seed)
    cap = 400 if tier == 'quick' else 5000

    def ties(tp):
        tot = [sum(x['c'] for x in l['fs']) for l in tp['t']['work']]
        return len(tot) >= 2 and len(set(tot)) < len(tot)
    nties = 0
    for tp in all_tuples():
        ntuples += 1
        if sample is None or rs.random() < 1e-4:
            sample = tp
        if ties(tp):                   # reservoir sample of tie-rich tuples
            nties += 1
            if len(tie_tuples) < cap:
                tie_tuples.append(tp)
            else:
                j = rs.randrange(nties)
                if j < cap:
                    tie_tuples[j] = tp
        msg = check_tuple(tp)
        t = tp['t']
        if len(t['work']) >= 2 and len(t['groups']) >= 2:
            nontrivial.add(chash(t))
        if msg and msg.startswith('DRIFT'):
            drift += 1
            continue
        if msg:
            bad += 1
            v.violation(f'greedy_assignment differs from KfacAssign.Greedy: '
                        f'{msg} on {json.dumps(t)[:400]}',
                        {'kind': 'replay', 'colocate': t['colocate'],
                         'msg': msg.split(':')[0]}, replay={'tuple': tp})
    # purity across interpreters: ranks are separate processes with their own
    # string hash seed; use the tie-rich tuples
    import shutil
    shutil.rmtree(sdir, ignore_errors=True)
    if ntuples != distinct:
        raise RuntimeError(
            f'emitted {ntuples} tuples but TLC found {distinct}')
    msg = assign.cross_interpreter(tie_tuples)
    if msg:
        v.violation(msg, {'kind': 'hashseed'})
    nrand, rbad = random_instances(3000 if tier == 'quick' else 60000, seed)
    for b in rbad[:5]:
        v.violation(f'property clause fails on random instance: {b["msg"]}',
                    {'kind': 'random', 'msg': b['msg'].split(' ')[0]},
                    replay=b)
    v.coverage = {
        'states': r.distinct, 'transitions': max(r.generated, 1),
        'traces_validated_against_impl': ntuples,
        'samples': [sample] if sample else ['none'],
        'evaluations': ntuples + nrand,
        'distinct_nontrivial': len(nontrivial),
        'rule': 'every TLC state (argument tuple) replayed into '
                'greedy_assignment; non-trivial = >= 2 layers and >= 2 groups',
        'exhaustive': True,
        'scope': {'runs (W, layers, costs, factors per layer)': scopes,
                  'groups': '<= 3, every labelling, members '
                  'ascending/descending'},
        'random_property_instances': nrand,
        'model_drift_tie_breaking': drift,
    }
    v.assumptions = ['python str ordering of factor names A < G < H and of '
                     'layer names is irrelevant to layer order (stable sort '
                     'on totals) - encoded by NameRank in the spec']
    return v.finish()


def replay(path: str) -> int:
    rec = json.load(open(path))
    rp = rec['replay']
    if 'tuple' in rp:
        msg = check_tuple(rp['tuple'])
    else:
        msg = props_only(rp['work'], rp['groups'], rp['W'], rp['colocate'])
    print(msg)
    return 1 if msg else 0
