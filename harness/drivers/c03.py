"""C03: all ranks issue matching collectives and no rank ever stalls.

Decision procedure (DESIGN.md section 5, C03):
  B1  run the real KFACPreconditioner on simdist for a lattice of
      configurations x histories under several scheduling policies; the
      monitors of simdist are the invariants of spec/Comm.tla evaluated on the
      actual interleaving (MemberOnly, NoForeign, MatchInv, SameNewGroupSeq,
      NoStall, AllComplete).
  B2  extract each rank's real issue/wait program from the trace, check that
      it is schedule independent, feed it to spec/Comm.tla as the constant
      Prog and let TLC explore every interleaving (full / POR / linearised
      config by program length).
  A   TLC -simulate behaviours of Comm over those programs are replayed as
      explicit schedules into the real code (ScriptPolicy); every scripted
      action must be enabled when its turn comes and the resulting gradients
      must be bit-identical to the other schedules.
"""

from __future__ import annotations

import itertools
import json
import random
from concurrent.futures import ThreadPoolExecutor
from typing import Any

from harness import analyze, confluence, kaisa, progs, simdist
from harness.common import Verdict, chash
from harness.par import pmap

PROP = 'C03'

HISTORIES: dict[str, list[Any]] = {
    'two_steps': [['train', 1], ['step'], ['train', 1], ['step']],
    'ckpt': [['train', 1], ['step'], ['mem'], ['save', True], ['load', True],
             ['train', 1], ['step']],
    'ckpt_nofactors': [['train', 1], ['step'], ['save', False],
                       ['load', True], ['train', 1], ['step']],
    'ckpt_noinv': [['train', 1], ['step'], ['save', True], ['load', False],
                   ['train', 1], ['step']],
    'evalmix': [['train', 1], ['step'], ['eval'], ['train', 1], ['step'],
                ['eval'], ['train', 1], ['step']],
    'subset': [['train', 1], ['step'], ['mem_on', [0]],
               ['train', 1], ['step'], ['mem_on', [1]]],
    # reset_batch at a step boundary (a second training pass without a step
    # in between is outside the property's histories, see DESIGN.md 6)
    'reset': [['train', 1], ['step'], ['reset'], ['train', 1], ['step'],
              ['reset'], ['train', 1], ['step']],
    # a subset of the ranks drops the statistics of an iteration (no
    # collective is implied by reset_batch): every rank still takes part in
    # every collective of the following step
    'partial_reset': [['train', 1], ['step'], ['train', 1], ['reset_on', [0]],
                      ['step'], ['train', 1], ['step']],
    'three': [['train', 1], ['step'], ['train', 1], ['step'],
              ['train', 1], ['step']],
}


def divisors(n: int) -> list[int]:
    return [d for d in range(1, n + 1) if n % d == 0]


def lattice(tier: str) -> list[dict[str, Any]]:
    out = []
    Ws = (2, 4) if tier == 'quick' else (2, 3, 4, 6, 8)
    for W in Ws:
        for k in divisors(W):
            for method, prediv in (('eigen', True), ('eigen', False),
                                   ('inverse', False)):
                for cap in (0.0, 25.0, 0.00004):
                    for sym in (False, True):
                        for in_hook in (True, False):
                            for colocate in (True, False):
                                if not colocate and prediv:
                                    continue
                                out.append(dict(
                                    W=W, k=k, method=method, prediv=prediv,
                                    bucket_cap_mb=cap, symmetry=sym,
                                    in_hook=in_hook, colocate=colocate))
    return out


def gen_cases(tier: str, seed: int) -> list[dict[str, Any]]:
    rng = random.Random(seed)
    lat = lattice(tier)
    rng.shuffle(lat)
    n = 56 if tier == 'quick' else 640
    # make sure every (W,k,method) cell appears
    cells: dict[tuple, list[dict]] = {}
    for c in lat:
        cells.setdefault((c['W'], c['k'], c['method'], c['prediv']), []
                         ).append(c)
    picked: list[dict] = []
    while len(picked) < n and any(cells.values()):
        for key in list(cells):
            if cells[key]:
                picked.append(cells[key].pop())
    picked = picked[:n]
    cases = []
    hist_names = list(HISTORIES)
    for i, c in enumerate(picked):
        h = hist_names[i % len(hist_names)]
        extra: dict[str, Any] = {}
        j = i // len(hist_names)
        # interval / accumulation variety
        variants = [
            dict(F=1, I=1, accum=1),
            dict(F=1, I=2, accum=1),
            dict(F=2, I=2, accum=1),
            dict(F='int_1_2', I='int_2_1', accum=1),
            dict(F=1, I=1, accum=2),
            dict(F=2, I=3, accum=1),
        ]
        extra.update(variants[(i + j) % len(variants)])
        if h in ('ckpt_nofactors', 'ckpt_noinv'):
            # documented usage assumption: without factors / inverses in the
            # restored state the first step after the load must be an update
            # step for both
            extra.update(F=1, I=1)
        hist = HISTORIES[h]
        if extra['accum'] == 2:
            hist = [['train', 2] if op[0] == 'train' else op for op in hist]
        model = ['mlp3', 'mixb', 'mlp2', 'mlp2nb', 'eq'][i % 5]
        if tier == 'thorough' and i % 7 == 0:
            model = 'conv'
        cfg = dict(c)
        cfg.update(extra)
        cfg['model'] = model
        # every third case: no gradient averaging by the driver, so that the
        # ranks are not synchronised once per iteration and can drift apart
        cfg['ddp'] = (i % 3 != 2)
        cfg.update([dict(), dict(inv_dtype='float64'),
                    dict(param_dtype='float64', inv_dtype='float32'),
                    dict()][(i // 4) % 4])
        cases.append({'cfg': cfg, 'hist_name': h, 'history': hist,
                      'seed': seed * 1000 + i})
    # ill-conditioned factors (large-magnitude activations): which collectives
    # are issued, with which shapes, must not depend on the data
    for i, (W, k) in enumerate([(2, 2), (4, 2), (4, 4), (2, 1)]):
        for method in ('inverse', 'eigen'):
            cases.append({
                'cfg': dict(W=W, k=k, method=method, prediv=False,
                            bucket_cap_mb=[0.0, 25.0][i % 2], symmetry=True,
                            in_hook=True, colocate=(i % 2 == 0), F=1,
                            I=1 + i % 2, accum=1, in_scale=30.0,
                            batch=16, damping=0.003,
                            model=['wide', 'wide', 'conv'][i % 3]),
                'hist_name': 'ckpt', 'history': HISTORIES['ckpt'],
                'seed': seed + 50 + i,
            })
    # marathons: many iterations on worlds whose gradient-worker columns own
    # different numbers of layers (per-rank operation counts drift apart)
    longs = [dict(W=4, k=2, method='eigen', prediv=True, bucket_cap_mb=25.0,
                  symmetry=False, in_hook=True, colocate=True, F=1, I=1,
                  accum=1, model='mlp3', ddp=True)]
    if tier != 'quick':
        longs += [dict(W=4, k=2, method='inverse', prediv=False,
                       bucket_cap_mb=25.0, symmetry=True, in_hook=False,
                       colocate=True, F=1, I=2, accum=1, model='mlp3',
                       ddp=False),
                  dict(W=6, k=2, method='eigen', prediv=False,
                       bucket_cap_mb=0.00004, symmetry=False, in_hook=True,
                       colocate=False, F=1, I=1, accum=1, model='mlp4',
                       ddp=True)]
    # AMP: the scaled loss of ONE rank overflows in one iteration (non-finite
    # gradients there); every rank must still issue the same collectives
    # (no step follows: what K-FAC computes from non-finite statistics is not
    # the subject of C03)
    for j, (W, k) in enumerate([(2, 1), (4, 2)] if tier == 'quick'
                               else [(2, 1), (2, 2), (4, 2), (4, 4), (4, 1)]):
        c = dict(W=W, k=k, method='eigen', prediv=True,
                 bucket_cap_mb=[0.0, 25.0][j % 2], symmetry=False,
                 in_hook=True, colocate=True, F=1, I=1, accum=1,
                 model='mlp3', ddp=False, grad_scaler=1024.0,
                 overflow=[1, W - 1])
        cases.append({'cfg': c, 'hist_name': 'amp_overflow',
                      'history': [['train', 1], ['step'], ['train', 1]],
                      'seed': seed * 1000 + 950 + j})
    n_it = 90 if tier == 'quick' else 260
    for j, c in enumerate(longs):
        cases.append({'cfg': c, 'hist_name': 'marathon',
                      'history': [['train', 1], ['step']] * n_it,
                      'seed': seed * 1000 + 900 + j, 'long': True})
    return cases


def policies(W: int, seed: int) -> list[simdist.Policy]:
    rev = list(reversed(range(W)))
    return [
        simdist.RandomPolicy(seed, 0.3),
        simdist.LazyCompletion(seed + 1),
        simdist.EagerCompletion(rev),
        simdist.RunToBlock(rev, lazy=True),
        # ranks run far ahead of each other while slots complete as soon as
        # possible: exposes decisions taken on "is my future done yet?"
        simdist.RunToBlock(list(range(W)), lazy=False),
    ]


def final_grads(res: Any) -> list[dict] | None:
    if not res.cfg.ddp:
        return None       # per-rank gradients: values are not comparable
    out = []
    for rr in res.ranks:
        if rr is None or not rr.snaps:
            return None
        out.append([s['grads'] for s in rr.snaps if s['tag'] == 'step'])
    return out


def run_case(case: dict[str, Any]) -> dict[str, Any]:
    cfg = kaisa.Config(**case['cfg'])
    issues: list[tuple[str, dict]] = []
    notes: list[str] = []
    sigs = []
    ref_grads = None
    prog0 = None
    groups0 = None
    nexec = 0
    nevents = 0
    pols = policies(cfg.W, case['seed'])
    if case.get('long'):
        pols = pols[:2]
    for pol in pols:
        res = kaisa.run(cfg, case['history'], pol, seed=case['seed'])
        nexec += 1
        nevents += len(res.events)
        for what, sig in analyze.comm_issues(res):
            issues.append((what + f' [policy {pol.name}]', sig))
        errs = analyze.rank_errors(res)
        if errs and not analyze.comm_issues(res):
            # uniform errors without any communication problem are not C03
            notes.append(f'rank errors without comm issue: {errs[:2]}')
        if res.unattributed_waits:
            notes.append(f'{res.unattributed_waits} unattributed waits')
        st = progs.strip(res.programs)
        if prog0 is None:
            prog0, groups0, sig0 = res.programs, res.groups, st
            ref_grads = final_grads(res)
        else:
            if st != sig0 or res.groups != groups0:
                iss = {r: [o for o in p if o[0] != 'W'] for r, p in st.items()}
                iss0 = {r: [o for o in p if o[0] != 'W'] for r, p in sig0.items()}
                if iss != iss0 or res.groups != groups0:
                    # which collectives a rank issues must not depend on timing
                    issues.append((
                        f'the sequence of collectives a rank issues depends '
                        f'on the schedule ({pol.name} vs the first policy)',
                        {'monitor': 'schedule_dependent_program',
                         'phase': 'run',
                         'strategy': analyze.strategy_name(cfg)}))
                else:
                    notes.append(
                        f'wait positions differ between schedules ({pol.name})')
            g = final_grads(res)
            if ref_grads is not None and g is not None:
                same = all(
                    analyze.grads_bitwise_equal(a, b)
                    for ra, rb in zip(ref_grads, g)
                    for a, b in zip(ra, rb)
                ) and all(len(ra) == len(rb) for ra, rb in zip(ref_grads, g))
                if not same:
                    issues.append((
                        f'gradients differ between schedules ({pol.name})',
                        {'monitor': 'schedule_dependent_result',
                         'phase': 'step',
                         'strategy': analyze.strategy_name(cfg)}))
    return {
        'case': case, 'issues': issues, 'notes': notes,
        'programs': {str(r): p for r, p in (prog0 or {}).items()},
        'groups': {str(g): list(m) for g, m in (groups0 or {}).items()},
        'nexec': nexec, 'nevents': nevents,
        'proglen': sum(len(p) for p in (prog0 or {}).values()),
    }


def _progs_from_json(out: dict[str, Any]) -> tuple[dict, dict]:
    pr = {int(r): p for r, p in out['programs'].items()}
    gr = {int(g): tuple(m) for g, m in out['groups'].items()}
    return pr, gr


def tlc_case(arg: tuple[dict[str, Any], str]) -> dict[str, Any]:
    out, mode = arg
    pr, gr = _progs_from_json(out)
    por: Any = {'full': False, 'por': True, 'lin': 'lin', 'live': False}[mode]
    # 'live': the full next-state relation under weak fairness, with the
    # temporal property Termination (every rank reaches the end of its
    # program and every collective completes) -- "no rank ever stalls" as a
    # liveness property, not only as absence of deadlock
    r = progs.check_programs(pr, gr, por=por, workers=2, timeout=900,
                             liveness=(mode == 'live'),
                             name='MC_Comm_' + chash([out['case'], mode]))
    return {'mode': mode, 'ok': r.ok, 'violated': r.violated,
            'generated': r.generated, 'distinct': r.distinct,
            'wall': r.wall_s, 'error': r.error_text[:1500],
            'trace_len': len(r.trace)}


def replay_case(arg: tuple[dict[str, Any], int]) -> dict[str, Any]:
    """Direction A: TLC behaviours of Comm replayed into the real code."""
    out, seed = arg
    pr, gr = _progs_from_json(out)
    scheds, r = analyze.tlc_schedules(pr, gr, num=2, seed=seed)
    case = out['case']
    cfg = kaisa.Config(**case['cfg'])
    base = kaisa.run(cfg, case['history'], simdist.LazyCompletion(0),
                     seed=case['seed'])
    g0 = final_grads(base)
    results = []
    for sc in scheds:
        pol = simdist.ScriptPolicy(sc)
        res = kaisa.run(cfg, case['history'], pol, seed=case['seed'])
        g = final_grads(res)
        same = (g0 is None or g is None or all(
            analyze.grads_bitwise_equal(a, b)
            for ra, rb in zip(g0, g) for a, b in zip(ra, rb)))
        results.append({
            'followed': pol.followed, 'skipped': pol.skipped,
            'left': len(pol.script), 'len': len(sc),
            'issues': [s for _, s in analyze.comm_issues(res)],
            'same_grads': bool(same),
            'sample': sc[:12],
        })
    return {'case': case, 'results': results, 'sim_states': r.generated}


def main(tier: str, seed: int) -> int:
    v = Verdict(PROP, tier, seed, 'model_checking')
    cases = gen_cases(tier, seed)
    outs = pmap(run_case, cases)
    nexec = sum(o['nexec'] for o in outs)
    for o in outs:
        for what, sig in o['issues']:
            v.violation(what, sig, replay={'case': o['case']})
        for n in o['notes']:
            v.note(f'{n} :: {json.dumps(o["case"]["cfg"])[:200]}')
    # ---- TLC over extracted programs -------------------------------------
    uniq: dict[str, dict] = {}
    for o in outs:
        if o['proglen'] == 0 or o['case'].get('long'):
            continue      # marathons: run-time monitors only (programs too
            # long for the exhaustive interleaving models)
        uniq.setdefault(chash([o['programs'], o['groups']]), o)
    ulist = sorted(uniq.values(), key=lambda o: o['proglen'])
    jobs: list[tuple[dict, str]] = []
    n_full = 2 if tier == 'quick' else 6
    n_por = 4 if tier == 'quick' else 24
    n_lin = 40 if tier == 'quick' else len(ulist)
    small = [o for o in ulist if o['proglen'] <= 60 and
             o['case']['cfg']['W'] == 2]
    mid = [o for o in ulist if o['proglen'] <= 150]
    for o in small[:n_full]:
        jobs.append((o, 'full'))
        jobs.append((o, 'por'))
        jobs.append((o, 'lin'))
        jobs.append((o, 'live'))
    for o in mid[-n_por:]:
        jobs.append((o, 'por'))
    step = max(1, len(ulist) // n_lin)
    for o in ulist[::step]:
        jobs.append((o, 'lin'))
    with ThreadPoolExecutor(max_workers=8) as ex:
        tres = list(ex.map(tlc_case, jobs))
    states = sum(t['distinct'] for t in tres)
    trans = sum(t['generated'] for t in tres)
    agree: dict[str, set] = {}
    for (o, mode), t in zip(jobs, tres):
        agree.setdefault(chash([o['programs'], o['groups']]), set()).add(
            (t['ok'], t['violated']))
        if not t['ok']:
            v.violation(
                f'TLC ({mode}) over the extracted programs of '
                f'{o["case"]["cfg"]} / {o["case"]["hist_name"]}: '
                f'{t["violated"]}\n{t["error"][:800]}',
                {'monitor': 'tlc_' + str(t['violated']),
                 'phase': o['case']['hist_name'],
                 'strategy': analyze.strategy_name(
                     kaisa.Config(**o['case']['cfg']))},
                replay={'case': o['case']})
    for key, s in agree.items():
        if len(s) > 1:
            raise RuntimeError(
                f'reduced and full Comm configs disagree: {s}')
    # ---- the lemma the reduced configs rest on (harness/confluence.py) ----
    with ThreadPoolExecutor(max_workers=8) as ex:
        confl = list(ex.map(confluence.check_batch,
                            confluence.batches(tier, seed)))
    for c in confl:
        if not c['ok']:
            raise RuntimeError(
                f'Comm.tla is not persistent/commutative, the reduced '
                f'configurations are unsound: {c}')
    states += sum(c['states'] for c in confl)
    trans += sum(c['edges'] for c in confl)
    # ---- direction A: TLC schedules into the code --------------------------
    n_rep = 6 if tier == 'quick' else 40
    rep_jobs = [(o, seed + i) for i, o in enumerate(mid[:n_rep])]
    reps = pmap(replay_case, rep_jobs)
    n_sched = 0
    drift = 0
    for rp in reps:
        for r in rp['results']:
            n_sched += 1
            if r['skipped'] or r['left']:
                drift += 1
            for sig in r['issues']:
                v.violation('comm issue under TLC-generated schedule', sig,
                            replay={'case': rp['case']})
            if not r['same_grads']:
                v.violation(
                    'gradients under a TLC-generated schedule differ from '
                    'the lazy-completion schedule',
                    {'monitor': 'schedule_dependent_result', 'phase': 'step',
                     'strategy': 'any'}, replay={'case': rp['case']})
    if drift:
        v.note(f'{drift}/{n_sched} TLC schedules were not followed exactly '
               '(model drift of Comm granularity)')
    distinct_cfg = len({chash(o['case']['cfg']) for o in outs})
    v.coverage = {
        'states': max(states, 1), 'transitions': max(trans, 1),
        'traces_validated_against_impl': len(jobs) + n_sched,
        'samples': [
            {'config': outs[0]['case']['cfg'],
             'history': outs[0]['case']['history'],
             'program_rank0_head': outs[0]['programs'].get('0', [])[:6]},
            {'tlc_schedule_head': reps[0]['results'][0]['sample']
             if reps and reps[0]['results'] else None},
        ],
        'evaluations': nexec + n_sched,
        'distinct_nontrivial': distinct_cfg,
        'rule': 'executions = (config, history) cases x 4 scheduling '
                'policies + TLC-generated schedules; distinct = distinct '
                'configuration records; non-trivial = world size > 1 (all)',
        'executions': nexec, 'events': sum(o['nevents'] for o in outs),
        'unique_program_sets': len(ulist),
        'tlc_runs': [{k: t[k] for k in ('mode', 'distinct', 'generated')}
                     for t in tres][:60],
        'confluence_lemma': {
            'program_sets': sum(c['program_sets'] for c in confl),
            'states': sum(c['states'] for c in confl),
            'diamonds_closed': sum(c['diamonds'] for c in confl),
            'rule': 'every pair of distinct enabled actions of the unreduced '
                    'Comm stays enabled and commutes; one terminal state per '
                    'program set (well-formed and ill-formed programs)'},
        'tlc_schedules_replayed': n_sched,
        'tlc_schedules_not_followed': drift,
        'histories': sorted({o['case']['hist_name'] for o in outs}),
    }
    v.assumptions = [
        'torch.distributed contract as modelled by spec/Comm.tla (per-group '
        'FIFO slot matching, completion when all members joined)',
        'simdist replaces torch.distributed; backend-specific behaviour '
        '(NCCL streams, gloo timeouts) is not modelled',
    ]
    return v.finish()


def replay(path: str) -> int:
    with open(path) as f:
        rec = json.load(f)
    case = rec['replay']['case']
    out = run_case(case)
    for what, sig in out['issues']:
        print('ISSUE', what[:400], sig)
    print('notes', out['notes'])
    return 1 if out['issues'] else 0
