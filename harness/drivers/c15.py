"""C15: layer helpers keep factors, gradients and weights in one consistent
layout.

spec/Layout.tla: conv patch index map (which input element each
(output position, feature) reads, ZERO for padding), feature order = column
order of the combined gradient = order of weight.view(out, -1), bias column
last, factor shapes; structural properties checked by TLC over all geometry
tuples in scope.  For every tuple TLC emits, the real Conv2dModuleHelper is
fed position revealing inputs / gradients and compared with the index map,
with torch.nn.functional.unfold, and numerically (float64) with the identity
weight-grad = sum over samples and positions of outer(output-gradient row,
patch row); set_grad(get_grad()) must be the identity; advertised factor
shapes must equal the produced ones.  Linear helpers: N-d inputs of rank 2..4.
"""

from __future__ import annotations

import json
import random
from typing import Any

import torch

from harness.common import Verdict, chash
from harness.par import pmap
from harness.progs import instantiate
from harness.tlc import run_tlc, tla

PROP = 'C15'


def check_conv(d: dict[str, Any]) -> str | None:
    from kfac.layers.modules import Conv2dModuleHelper

    g = d['g']
    conv = torch.nn.Conv2d(g['cin'], g['cout'], (g['kh'], g['kw']),
                           stride=(g['sh'], g['sw']),
                           padding=(g['ph'], g['pw']), bias=g['bias']
                           ).double()
    helper = Conv2dModuleHelper(conv)
    N = 2
    nin = g['cin'] * g['h'] * g['w']
    x = (torch.arange(N * nin, dtype=torch.float64) + 1).reshape(
        N, g['cin'], g['h'], g['w'])
    p = helper._extract_patches(x.clone())
    oh, ow = d['oh'], d['ow']
    nf = g['cin'] * g['kh'] * g['kw']
    if tuple(p.shape) != (N, oh, ow, nf):
        return f'patch shape {tuple(p.shape)} expected {(N, oh, ow, nf)}'
    m = torch.tensor(d['map'], dtype=torch.long)          # (oh*ow, nf)
    for n in range(N):
        flat = x[n].reshape(-1)
        want = torch.where(m >= 0, flat[m.clamp(min=0)],
                           torch.zeros((), dtype=torch.float64))
        if not torch.equal(p[n].reshape(oh * ow, nf), want):
            return 'patch contents differ from PatchIndex'
    u = torch.nn.functional.unfold(x, (g['kh'], g['kw']),
                                   padding=(g['ph'], g['pw']),
                                   stride=(g['sh'], g['sw']))
    if not torch.equal(u.transpose(1, 2).reshape(N, oh, ow, nf), p):
        return 'patch extraction disagrees with torch unfold'
    # the helper is stateless: a larger input, a smaller batch and then the
    # original input again through the SAME helper give the same answers
    big = (torch.arange(3 * g['cin'] * (g['h'] + 3) * (g['w'] + 2),
                        dtype=torch.float64) + 7).reshape(
        3, g['cin'], g['h'] + 3, g['w'] + 2)
    pb = helper._extract_patches(big.clone())
    ub = torch.nn.functional.unfold(big, (g['kh'], g['kw']),
                                    padding=(g['ph'], g['pw']),
                                    stride=(g['sh'], g['sw']))
    if pb.shape[-1] != nf or not torch.equal(
            ub.transpose(1, 2).reshape(pb.shape), pb):
        return 'patch extraction of a larger input disagrees with torch unfold'
    p1 = helper._extract_patches(x[:1].clone())
    if not torch.equal(p1, p[:1]):
        return ('patch extraction depends on what the helper saw before '
                '(smaller input after a larger one)')
    p_again = helper._extract_patches(x.clone())
    if not torch.equal(p_again, p):
        return 'patch extraction is not repeatable on the same helper'
    # advertised vs produced factor shapes
    a = helper.get_a_factor(x.clone())
    if tuple(a.shape) != tuple(helper.a_factor_shape) or \
            a.shape[0] != d['ashape']:
        return f'A shape {tuple(a.shape)} advertised {helper.a_factor_shape} spec {d["ashape"]}'
    gout = torch.randn(N, g['cout'], oh, ow, dtype=torch.float64,
                       generator=torch.Generator().manual_seed(1))
    gf = helper.get_g_factor(gout.clone())
    if tuple(gf.shape) != tuple(helper.g_factor_shape) or \
            gf.shape[0] != d['gshape']:
        return f'G shape {tuple(gf.shape)}'
    # combined gradient layout with position revealing gradients
    w = conv.weight
    w.grad = (torch.arange(w.numel(), dtype=torch.float64) + 1).reshape(w.shape)
    if g['bias']:
        conv.bias.grad = -(torch.arange(g['cout'], dtype=torch.float64) + 1)
    cg = helper.get_grad()
    if tuple(cg.shape) != (g['cout'], d['ashape']):
        return f'combined gradient shape {tuple(cg.shape)}'
    for o in range(g['cout']):
        for c in range(g['cin']):
            for ki in range(g['kh']):
                for kj in range(g['kw']):
                    col = (c * g['kh'] + ki) * g['kw'] + kj
                    if cg[o, col] != w.grad[o, c, ki, kj]:
                        return f'combined gradient column {col} holds another weight'
        if g['bias'] and cg[o, nf] != conv.bias.grad[o]:
            return 'bias is not the last column'
    w0 = w.grad.clone()
    b0 = conv.bias.grad.clone() if g['bias'] else None
    helper.set_grad(helper.get_grad())
    if not torch.equal(conv.weight.grad, w0) or (
            g['bias'] and not torch.equal(conv.bias.grad, b0)):
        return 'set_grad(get_grad()) is not the identity'
    if conv.weight.grad.shape != w.shape or not conv.weight.grad.is_contiguous():
        return 'set_grad changed shape / contiguity'
    # numeric identity: autograd weight grad = sum outer(g row, patch row)
    conv.zero_grad()
    xr = torch.randn(N, g['cin'], g['h'], g['w'], dtype=torch.float64,
                     generator=torch.Generator().manual_seed(2))
    out = conv(xr)
    out.backward(gout)
    patches = helper._extract_patches(xr.clone()).reshape(-1, nf)
    grows = gout.permute(0, 2, 3, 1).reshape(-1, g['cout'])
    if g['bias']:
        patches = torch.cat([patches, torch.ones(patches.shape[0], 1,
                                                 dtype=torch.float64)], 1)
    want = grows.t() @ patches
    got = helper.get_grad()
    if (got - want).abs().max().item() > 1e-9 * (1 + want.abs().max().item()):
        return 'combined gradient != sum of outer(output-gradient row, patch row)'
    return None


def check_linear(arg: tuple[int, int, bool, tuple[int, ...]]) -> str | None:
    from kfac.layers.modules import LinearModuleHelper

    nin, nout, bias, lead = arg
    lin = torch.nn.Linear(nin, nout, bias=bias).double()
    h = LinearModuleHelper(lin)
    x = torch.randn(*lead, nin, dtype=torch.float64,
                    generator=torch.Generator().manual_seed(3))
    out = lin(x)
    go = torch.randn(out.shape, dtype=torch.float64,
                     generator=torch.Generator().manual_seed(4))
    out.backward(go)
    a = h.get_a_factor(x.clone())
    g = h.get_g_factor(go.clone())
    if tuple(a.shape) != tuple(h.a_factor_shape) or a.shape[0] != nin + int(bias):
        return f'A shape {tuple(a.shape)} advertised {h.a_factor_shape}'
    if tuple(g.shape) != tuple(h.g_factor_shape) or g.shape[0] != nout:
        return f'G shape {tuple(g.shape)}'
    rows = x.reshape(-1, nin)
    if bias:
        rows = torch.cat([rows, torch.ones(rows.shape[0], 1, dtype=torch.float64)], 1)
    want_a = rows.t() @ rows / rows.shape[0]
    if (a - want_a).abs().max().item() > 1e-12:
        return 'A factor != second moment of bias-augmented flattened inputs'
    gr = go.reshape(-1, nout)
    if (g - gr.t() @ gr / gr.shape[0]).abs().max().item() > 1e-12:
        return 'G factor != second moment of flattened output gradients'
    want = gr.t() @ rows
    got = h.get_grad()
    if tuple(got.shape) != (nout, nin + int(bias)):
        return f'combined gradient shape {tuple(got.shape)}'
    if (got - want).abs().max().item() > 1e-9 * (1 + want.abs().max().item()):
        return 'combined gradient != sum of outer products'
    w0 = lin.weight.grad.clone()
    b0 = lin.bias.grad.clone() if bias else None
    h.set_grad(h.get_grad())
    if not torch.equal(lin.weight.grad, w0) or (
            bias and not torch.equal(lin.bias.grad, b0)):
        return 'set_grad(get_grad()) is not the identity'
    return None


def chunk(ds: list[dict]) -> list[tuple[str, dict]]:
    out = []
    for d in ds:
        try:
            msg = check_conv(d)
        except Exception as e:  # noqa: BLE001
            msg = f'exception {type(e).__name__}: {e}'[:300]
        if msg:
            out.append((msg, d))
    return out


def main(tier: str, seed: int) -> int:
    v = Verdict(PROP, tier, seed, 'model_checking')
    if tier == 'quick':
        sc = dict(Cins=[1, 2], Couts=[2], KHs=[1, 3], KWs=[1, 2], SHs=[1, 2],
                  SWs=[1, 2], PHs=[0, 1], PWs=[0, 1], Hs=[3, 4], Ws=[3, 5])
    else:
        sc = dict(Cins=[1, 2], Couts=[1, 3], KHs=[1, 2, 3], KWs=[1, 2, 3],
                  SHs=[1, 2, 3], SWs=[1, 2], PHs=[0, 1, 2], PWs=[0, 1],
                  Hs=[3, 4, 5, 7], Ws=[3, 5, 6])
    defs = ''.join(f'{k} == {tla(set(x))}\n' for k, x in sc.items())
    name = 'MC_Layout'
    mod = instantiate('Layout', name, defs)
    cfg = ('SPECIFICATION Spec\nINVARIANT PatchInjective\n'
           'INVARIANT FeatureIsColumn\nINVARIANT IndicesValid\n'
           'INVARIANT OutputPositive\nINVARIANT Emit\nCHECK_DEADLOCK FALSE\n')
    r = run_tlc(name, cfg_text=cfg, extra_modules={name: mod}, workers=8,
                deadlock=False, timeout=3600)
    if not r.ok:
        v.violation(f'TLC: {r.violated} on spec/Layout.tla\n'
                    f'{r.error_text[:800]}',
                    {'kind': 'spec', 'inv': str(r.violated)})
    ds = []
    for line in r.stdout.splitlines():
        if line.startswith('"{'):
            try:
                ds.append(json.loads(json.loads(line)))
            except Exception:  # noqa: BLE001
                pass
    if len(ds) != r.distinct:
        raise RuntimeError(f'emitted {len(ds)} != states {r.distinct}')
    n = 48
    res = pmap(chunk, [ds[i::n] for i in range(n) if ds[i::n]])
    for lst in res:
        for msg, d in lst:
            v.violation(f'{msg} :: geometry {d["g"]}',
                        {'kind': 'conv', 'msg': msg[:40]},
                        replay={'d': d})
    lins = [(nin, nout, bias, lead) for nin in (1, 3, 4) for nout in (1, 2, 5)
            for bias in (True, False)
            for lead in ((4,), (2, 3), (2, 1, 3), (1,))]
    for a in lins:
        msg = check_linear(a)
        if msg:
            v.violation(f'{msg} :: linear {a}',
                        {'kind': 'linear', 'msg': msg[:40]},
                        replay={'linear': list(a)})
    nontriv = {chash(d['g']) for d in ds
               if (d['g']['ph'] or d['g']['pw']) and
               (d['g']['sh'] > 1 or d['g']['sw'] > 1)}
    v.coverage = {
        'states': max(r.distinct, 1), 'transitions': max(r.generated, 1),
        'traces_validated_against_impl': len(ds) + len(lins),
        'samples': [{'g': ds[0]['g'], 'map_first_row': ds[0]['map'][0]}]
        if ds else ['none'],
        'evaluations': len(ds) + len(lins),
        'distinct_nontrivial': len(nontriv),
        'rule': 'one case per conv geometry tuple emitted by TLC (+ linear '
                'shapes); non-trivial = padded and strided',
        'exhaustive': True, 'scope': sc, 'linear_cases': len(lins),
    }
    v.assumptions = ['dilation 1, groups 1 (as in the property); float64 for '
                     'the numeric identity']
    return v.finish()


def replay(path: str) -> int:
    rec = json.load(open(path))
    rp = rec['replay']
    msg = check_conv(rp['d']) if 'd' in rp else check_linear(
        (rp['linear'][0], rp['linear'][1], rp['linear'][2],
         tuple(rp['linear'][3])))
    print(msg)
    return 1 if msg else 0
