"""Parallel map over worker processes that import kfac from /repo."""

from __future__ import annotations

import multiprocessing as mp
import os
import traceback
from typing import Any, Callable, Iterable


def _init() -> None:
    import sys

    sys.dont_write_bytecode = True
    os.environ.setdefault('OMP_NUM_THREADS', '1')
    os.environ.setdefault('MKL_NUM_THREADS', '1')
    from harness.common import setup_repo_import

    setup_repo_import()
    import torch

    torch.set_num_threads(1)


def _call(args: tuple[Callable[[Any], Any], Any]) -> Any:
    fn, item = args
    try:
        return ('ok', fn(item))
    except BaseException as e:  # noqa: BLE001
        return ('err', f'{type(e).__name__}: {e}\n{traceback.format_exc()}')


def pmap(fn: Callable[[Any], Any], items: Iterable[Any], procs: int = 16,
         chunksize: int = 1) -> list[Any]:
    """Map fn over items in worker processes; raises on machinery errors."""
    items = list(items)
    if not items:
        return []
    procs = max(1, min(procs, len(items), os.cpu_count() or 1))
    if procs == 1:
        _init()
        res = [_call((fn, it)) for it in items]
    else:
        ctx = mp.get_context('spawn')
        with ctx.Pool(procs, initializer=_init) as pool:
            res = pool.map(_call, [(fn, it) for it in items],
                           chunksize=chunksize)
    out = []
    for tag, val in res:
        if tag == 'err':
            raise RuntimeError('worker failed (machinery): ' + val)
        out.append(val)
    return out
