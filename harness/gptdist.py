"""spec/GptDist.tla: build cases from real GPT-NeoX executions, run TLC."""

from __future__ import annotations

from typing import Any

from harness import gptrun, kaisa
from harness.progs import instantiate
from harness.tlc import run_tlc, tla, TLCResult

CLAUSES = ['T_FactorGroups', 'T_ShardTraffic', 'T_GradBcast', 'T_BcastOnce',
           'T_GradWorkers', 'T_SaveLoad', 'T_Alone', 'T_Match', 'T_Members',
           'T_NGSame']


def hist_facts(cfg: kaisa.Config, h: list[dict[str, Any]],
               ) -> list[dict[str, Any]]:
    out = []
    steps, F = 0, None
    saved_layers = False
    for rec in h:
        o = rec['obs']
        f = {'act': rec['act'], 'micro': 0, 'armed': False,
             'factorStep': False, 'incl': False, 'haslayers': False}
        if rec['act'] == 'train':
            # hooks are armed on iterations whose step count is a multiple
            # of factor_update_steps (both read from the state AFTER the
            # call: a training pass changes neither)
            f['micro'] = int(rec['arg'])
            f['armed'] = o['steps'] % int(o['F']) == 0
        elif rec['act'] == 'step':
            f['factorStep'] = bool(rec['x'].get('factorStep', False))
        elif rec['act'] == 'save':
            f['incl'] = bool(rec['arg'])
            saved_layers = bool(rec['arg'])
        elif rec['act'] == 'load':
            f['haslayers'] = saved_layers
        out.append(f)
    return out


def build_case(cfg: kaisa.Config, h: list[dict[str, Any]],
               ex: dict[str, Any]) -> dict[str, Any]:
    g = cfg.gpt
    D, M, P = g['D'], g['M'], g.get('P', 1)
    W = P * D * M
    world = ex['world']
    recs = ex['recs']
    lay = gptrun.layout(g)
    names = gptrun.names_of(g)          # key -> registered name
    key_of = {v: k for k, v in names.items()}
    layers = []
    reg_names = []
    for p in range(P):
        first = recs[p * D * M][0]['facts']    # registration order of stage p
        for n in first:
            reg_names.append(n)
            kind = lay[key_of[n]][0]
            layers.append({
                'stage': p,
                'name': n, 'par': 'output' if kind == 'col' else 'input',
                'bias': bool(g.get('bias_col' if kind == 'col'
                                   else 'bias_row', True)),
                'iw': int(first[n]['inv'])})
    fwd = [reg_names.index(names[k]) + 1 for k in lay]   # forward order
    trace: list[list[dict]] = [[] for _ in range(W)]
    ng: list[list[dict]] = [[] for _ in range(W)]
    for e in world.events:
        r = e.get('rank')
        if r is None or e.get('owner') != 'kfac':
            continue
        if e['ev'] == 'new_group':
            ng[r].append({'ranks': set(e['ranks']), 'at': e.get('at', 0)})
            continue
        if e['ev'] != 'issue':
            continue
        k = e['kind']
        if k == 'all_reduce':
            cls = 'c' if (e['numel'] == 1 and e['dtype'] == 'float64') else 'f'
        elif k in ('barrier', 'all_gather_object'):
            cls = 'o'
        elif k == 'all_gather' and h[e['at'] - 1]['act'] == 'train' \
                and e['at'] >= 1:
            cls = 'x'
        else:
            cls = 'g'
        trace[r].append({
            'kind': k, 'grp': set(world.groups[e['group']]),
            'root': -1 if e['root'] is None else e['root'],
            'cls': cls, 'at': e.get('at', 0)})
    return {
        'P': P, 'D': D, 'M': M, 'layers': layers, 'fwd': fwd,
        'inhook': bool(cfg.in_hook), 'accum': int(cfg.accum),
        'clip': cfg.kl_clip is not None, 'dir': bool(g.get('ckpt_dir')),
        'bucketed': cfg.bucket_cap_mb > 0,
        'hist': hist_facts(cfg, h), 'trace': trace, 'ngtrace': ng,
    }


def check_cases(cases: list[dict[str, Any]], workers: int = 2,
                invariants: list[str] | None = None) -> TLCResult:
    name = 'MC_GptDist'
    defs = 'Cases == ' + tla(cases) + '\n'
    mod = instantiate('GptDist', name, defs)
    invs = invariants or (['DesignOK'] + CLAUSES)
    cfg = 'SPECIFICATION Spec\n' + ''.join(
        f'INVARIANT {i}\n' for i in invs) + 'CHECK_DEADLOCK FALSE\n'
    return run_tlc(name, cfg_text=cfg, extra_modules={name: mod},
                   workers=workers, deadlock=False, timeout=1800)


CLAUSE_TEXT = {
    'DesignOK': 'the derived GPT-NeoX protocol violates one of its own clauses',
    'T_FactorGroups': 'a factor is averaged over a group that is neither the '
                      'pipeline stage nor the data-parallel group of a '
                      'primary rank',
    'T_ShardTraffic': 'shards are gathered / scattered outside the rank\'s '
                      'model-parallel group',
    'T_GradBcast': 'a gradient is broadcast in the wrong group or from a rank '
                   'that is not the primary / inverse-worker replica',
    'T_BcastOnce': 'a data-parallel group does not receive every layer '
                   'exactly once per step',
    'T_GradWorkers': 'gradients are gathered / scattered by ranks outside the '
                     'inverse worker\'s model-parallel group (or not by them)',
    'T_SaveLoad': 'ranks take part in different world-level collectives '
                  'while saving / loading',
    'T_Alone': 'a single rank issues data collectives',
    'T_Match': 'members of one group issue different collective sequences',
    'T_Members': 'a rank issues a collective on a group it is not a member of',
    'T_NGSame': 'process groups are not created by all ranks in the same order',
}


def locate(cases: list[dict[str, Any]], invs: list[str],
           ) -> list[tuple[int, str]]:
    """(case index, invariant) of every failing case (TLC stops at the first
    violating state, so continue behind it)."""
    bad: list[tuple[int, str]] = []
    start = 0
    while start < len(cases):
        r = check_cases(cases[start:], invariants=invs, workers=1)
        if r.ok:
            break
        k = max(1, len(r.trace))
        if k > len(cases) - start:
            raise RuntimeError('cannot locate the violating case')
        bad.append((start + k - 1, str(r.violated)))
        for inv in invs:
            if inv != r.violated and len(invs) > 1:
                r1 = check_cases([cases[start + k - 1]], invariants=[inv],
                                 workers=1)
                if not r1.ok:
                    bad.append((start + k - 1, inv))
        start += k
    return bad


def check_all(kcases: list[dict[str, Any]], batch: int = 12,
              ) -> tuple[list[tuple[int, str]], int, int, int]:
    """All clauses + conformance over many cases.
    Returns (clause failures [(index, invariant)], drift count, states,
    transitions)."""
    from concurrent.futures import ThreadPoolExecutor

    def run(lo: int) -> tuple[list[tuple[int, str]], int, int, int]:
        b = kcases[lo:lo + batch]
        r = check_cases(b, invariants=['DesignOK'] + CLAUSES
                        + ['Conforms', 'NGConforms', 'T_NoStallBlocking'])
        bad: list[tuple[int, str]] = []
        drift = 0
        if not r.ok:
            bad = [(lo + j, inv) for j, inv in
                   locate(b, ['DesignOK'] + CLAUSES)]
            drift = len({j for j, _ in locate(b, ['Conforms'])}
                        | {j for j, _ in locate(b, ['NGConforms'])}
                        | {j for j, _ in locate(b, ['T_NoStallBlocking'])})
        return bad, drift, r.distinct, r.generated

    with ThreadPoolExecutor(max_workers=8) as ex:
        res = list(ex.map(run, range(0, len(kcases), batch)))
    bad = [x for r in res for x in r[0]]
    return (bad, sum(r[1] for r in res), sum(r[2] for r in res),
            sum(r[3] for r in res))


def design_cases(max_d: int, max_m: int, max_layers: int,
                 limit: int | None = None, seed: int = 0, P: int = 1,
                 ) -> list[dict[str, Any]]:
    """Design-level cases (no recorded trace): every topology up to
    (max_d, max_m), layer lists over parallelism x bias x inverse worker,
    hook / accumulation / clip / checkpoint-mode flags, one canonical
    history that visits every kind of call."""
    import itertools
    import random

    out = []
    for D, M in itertools.product(range(1, max_d + 1), range(1, max_m + 1)):
        W = P * D * M
        kinds = [(p, b) for p in ('input', 'output') for b in (False, True)]
        for nl in range(1, max_layers + 1):
            for ks in itertools.product(kinds, repeat=nl):
                for iws in itertools.product(range(W), repeat=nl):
                    if nl > 1 and len(set(iws)) == 1 and iws[0] not in (0, W - 1):
                        continue
                    for inhook, accum, clip, dr in (
                            (True, 1, True, False), (False, 2, False, False),
                            (True, 2, True, True), (False, 1, True, False)):
                        # layer i lives on stage i mod P; its inverse worker
                        # is folded into that stage
                        layers = [{'stage': i % P, 'name': f'l{i}', 'par': p,
                                   'bias': b,
                                   'iw': (i % P) * D * M + iw % (D * M)}
                                  for i, ((p, b), iw) in enumerate(zip(ks, iws))]
                        hist = [
                            {'act': 'train', 'micro': accum, 'armed': True,
                             'factorStep': False, 'incl': False,
                             'haslayers': False},
                            {'act': 'step', 'micro': 0, 'armed': False,
                             'factorStep': True, 'incl': False,
                             'haslayers': False},
                            {'act': 'save', 'micro': 0, 'armed': False,
                             'factorStep': False, 'incl': True,
                             'haslayers': False},
                            {'act': 'load', 'micro': 0, 'armed': False,
                             'factorStep': False, 'incl': False,
                             'haslayers': True},
                            {'act': 'train', 'micro': 1, 'armed': False,
                             'factorStep': False, 'incl': False,
                             'haslayers': False},
                            {'act': 'step', 'micro': 0, 'armed': False,
                             'factorStep': False, 'incl': False,
                             'haslayers': False},
                        ]
                        out.append({
                            'P': P, 'D': D, 'M': M, 'layers': layers,
                            'fwd': list(range(1, nl + 1)),
                            'inhook': inhook, 'accum': accum, 'clip': clip,
                            'dir': dr, 'bucketed': False, 'hist': hist,
                            'trace': [[] for _ in range(W)],
                            'ngtrace': [[] for _ in range(W)]})
    if limit is not None and len(out) > limit:
        rng = random.Random(seed)
        out = rng.sample(out, limit)
    return out


def check_design(cases: list[dict[str, Any]], batch: int = 30,
                 ) -> tuple[list[int], int, int]:
    """DesignOK over design cases; returns (failing indices, states, trans)."""
    from concurrent.futures import ThreadPoolExecutor

    def run(lo: int) -> tuple[list[int], int, int]:
        b = cases[lo:lo + batch]
        r = check_cases(b, invariants=['DesignOK'], workers=1)
        bad = []
        if not r.ok:
            bad = [lo + j for j, _ in locate(b, ['DesignOK'])]
        return bad, r.distinct, r.generated

    with ThreadPoolExecutor(max_workers=8) as ex:
        res = list(ex.map(run, range(0, len(cases), batch)))
    return ([x for r in res for x in r[0]], sum(r[1] for r in res),
            sum(r[2] for r in res))
