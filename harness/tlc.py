"""Run TLC / SANY and parse results; helpers to emit TLA+ values."""

from __future__ import annotations

import json
import os
import re
import shutil
import subprocess
import tempfile
import time
from dataclasses import dataclass, field
from typing import Any

from harness.common import VERIF

SPEC_DIR = os.path.join(VERIF, 'spec')
JAR = '/opt/veriftools/tla/tla2tools.jar'
DEPS = '/opt/veriftools/tla/CommunityModules-deps.jar'


class TLCFailure(RuntimeError):
    """Machinery failure (not a property violation)."""


@dataclass
class TLCResult:
    ok: bool
    generated: int = 0
    distinct: int = 0
    depth: int = 0
    violated: str | None = None      # invariant / property name or 'deadlock'
    error_text: str = ''
    trace: list[dict[str, str]] = field(default_factory=list)
    stdout: str = ''
    wall_s: float = 0.0
    coverage: dict[str, int] = field(default_factory=dict)
    printed: list[str] = field(default_factory=list)


def tla(v: Any) -> str:
    """Python value -> TLA+ expression.

    dict with all-str keys -> record; dict with int keys -> function via :> @@;
    list/tuple -> sequence; set/frozenset -> set; bool/int/str as expected.
    """
    if isinstance(v, bool):
        return 'TRUE' if v else 'FALSE'
    if isinstance(v, int):
        return str(v)
    if isinstance(v, str):
        return '"' + v.replace('\\', '\\\\').replace('"', '\\"') + '"'
    if v is None:
        return '"none"'
    if isinstance(v, (list, tuple)):
        return '<<' + ', '.join(tla(x) for x in v) + '>>'
    if isinstance(v, (set, frozenset)):
        return '{' + ', '.join(tla(x) for x in sorted(v, key=repr)) + '}'
    if isinstance(v, dict):
        if not v:
            return '<<>>'
        if all(isinstance(k, str) for k in v):
            return '[' + ', '.join(
                f'{k} |-> {tla(x)}' for k, x in v.items()) + ']'
        return '(' + ' @@ '.join(
            f'{tla(k)} :> {tla(x)}' for k, x in v.items()) + ')'
    raise TypeError(f'cannot convert {type(v)} to TLA+')


_STATE_RE = re.compile(r'^State (\d+): <(.*?)>\s*$')


def run_tlc(
    module: str,
    cfg_text: str | None = None,
    cfg_file: str | None = None,
    extra_modules: dict[str, str] | None = None,
    workers: int | str = 'auto',
    timeout: int = 600,
    simulate: str | None = None,
    depth: int | None = None,
    seed: int | None = None,
    coverage: bool = False,
    deadlock: bool = True,
    env: dict[str, str] | None = None,
    java_opts: list[str] | None = None,
    keep_dir: bool = False,
    continue_: bool = False,
    dump_dot: str | None = None,
            emit_path: str | None = None,
            ) -> TLCResult:
    """Run TLC on spec/<module>.tla (or a generated module).

    extra_modules: name -> text, written next to copies of the spec dir.
    """
    work = tempfile.mkdtemp(prefix='verif_tlc_')
    try:
        for f in os.listdir(SPEC_DIR):
            if f.endswith('.tla') or f.endswith('.cfg'):
                shutil.copy(os.path.join(SPEC_DIR, f), os.path.join(work, f))
        for name, text in (extra_modules or {}).items():
            with open(os.path.join(work, name + '.tla'), 'w') as fp:
                fp.write(text)
        if cfg_text is not None:
            cfg_path = os.path.join(work, module + '_run.cfg')
            with open(cfg_path, 'w') as fp:
                fp.write(cfg_text)
        else:
            cfg_path = os.path.join(work, cfg_file or (module + '.cfg'))
        # TLC creates a scratch directory under java.io.tmpdir on every start:
        # keep it inside the work directory, which is removed afterwards
        # -Xss: recursive operators over long recorded traces (RunsToEnd, Cat)
        # need a deep evaluation stack
        cmd = ['java', '-XX:+UseParallelGC', '-Xmx6g', '-Xss256m',
               f'-Djava.io.tmpdir={work}']
        cmd += java_opts or []
        cmd += ['-cp', f'{JAR}:{DEPS}', 'tlc2.TLC',
                '-workers', str(workers), '-metadir',
                os.path.join(work, 'states'), '-noGenerateSpecTE',
                '-config', cfg_path]
        if not deadlock:
            cmd += ['-deadlock']
        if simulate is not None:
            if 'file=' not in simulate:
                # `num=` is only honoured together with `file=`
                os.makedirs(os.path.join(work, 'sim'), exist_ok=True)
                simulate = f'file={work}/sim/t,' + simulate
            cmd += ['-simulate', simulate]
        if depth is not None:
            cmd += ['-depth', str(depth)]
        if seed is not None:
            cmd += ['-seed', str(seed)]
        if coverage:
            cmd += ['-coverage', '1']
        if continue_:
            cmd += ['-continue']
        if dump_dot is not None:
            cmd += ['-dump', 'dot,actionlabels', dump_dot]
        cmd += [os.path.join(work, module + '.tla')]
        e = dict(os.environ)
        e.update(env or {})
        t0 = time.time()
        try:
            if emit_path is not None:
                # large emissions: TLC's output goes to a file the caller
                # iterates over lazily; only TLC's own messages are kept here
                with open(emit_path, 'w') as fo:
                    p = subprocess.run(cmd, cwd=work, stdout=fo,
                                       stderr=subprocess.PIPE, text=True,
                                       timeout=timeout, env=e)
                msgs = []
                with open(emit_path) as fi:
                    for line in fi:
                        if not line.startswith('"'):
                            msgs.append(line)
                out = ''.join(msgs) + '\n' + (p.stderr or '')
            else:
                p = subprocess.run(
                    cmd, cwd=work, capture_output=True, text=True,
                    timeout=timeout, env=e,
                )
                out = p.stdout + '\n' + p.stderr
        except subprocess.TimeoutExpired as ex:
            raise TLCFailure(
                f'TLC timed out after {timeout}s on {module}') from ex
        res = parse_tlc(out)
        res.wall_s = time.time() - t0
        if keep_dir:
            res.error_text += f'\n[workdir {work}]'
        return res
    finally:
        if not keep_dir:
            shutil.rmtree(work, ignore_errors=True)


def parse_tlc(out: str) -> TLCResult:
    res = TLCResult(ok=False, stdout=out)
    m = None
    for m in re.finditer(
        r'(\d+) states generated, (\d+) distinct states found', out,
    ):
        pass
    if m:
        res.generated = int(m.group(1))
        res.distinct = int(m.group(2))
    m = re.search(r'The depth of the complete state graph search is (\d+)',
                  out)
    if m:
        res.depth = int(m.group(1))
    m = re.search(r'Invariant (\S+) is violated', out)
    if m:
        res.violated = m.group(1)
    if 'Deadlock reached' in out:
        res.violated = 'deadlock'
    m = re.search(r'Action property (\S+) is violated', out)
    if m:
        res.violated = m.group(1)
    if 'Temporal properties were violated' in out:
        res.violated = res.violated or 'temporal'
    m = re.search(r'The postcondition (\S+)? ?.*is violated|'
                  r'Postcondition .* violated', out)
    if m:
        res.violated = res.violated or 'postcondition'
    # trace
    cur: dict[str, str] | None = None
    for line in out.splitlines():
        sm = _STATE_RE.match(line)
        if sm:
            cur = {'_n': sm.group(1), '_action': sm.group(2), '_text': ''}
            res.trace.append(cur)
            continue
        if cur is not None:
            if line.strip() == '' or line.startswith('Error') or \
                    line.startswith('Finished') or re.match(r'^\d+ states', line):
                cur = None
            else:
                cur['_text'] += line + '\n'
    for line in out.splitlines():
        if line.startswith('"') or line.startswith('<<') or \
                line.startswith('[') or line.startswith('{'):
            res.printed.append(line)
    finished_ok = (
        'Model checking completed. No error has been found.' in out
        or ('Finished in' in out and res.violated is None
            and 'Error:' not in out)
    )
    if res.violated is None and not finished_ok:
        # simulation mode prints no completion message; accept if no Error
        if 'Error:' in out or 'Exception' in out or 'Parsing or semantic' in out \
                or '***Parse Error***' in out:
            idx = out.find('Error')
            res.error_text = out[max(0, idx - 200): idx + 3000]
            raise TLCFailure('TLC failed:\n' + res.error_text)
    res.ok = res.violated is None
    if not res.ok:
        idx = out.find('Error:')
        res.error_text = out[idx: idx + 4000] if idx >= 0 else ''
    # coverage lines:  <Action line .. of module M>: distinct:total
    for m in re.finditer(r'<(\w+) line \d+, col \d+ to line \d+, col \d+ of '
                         r'module (\w+)>: (\d+):(\d+)', out):
        res.coverage[f'{m.group(2)}.{m.group(1)}'] = \
            res.coverage.get(f'{m.group(2)}.{m.group(1)}', 0) + int(m.group(4))
    return res


def sany(module_path: str) -> None:
    p = subprocess.run(
        ['java', '-cp', f'{JAR}:{DEPS}', 'tla2sany.SANY', module_path],
        capture_output=True, text=True, cwd=os.path.dirname(module_path),
    )
    if 'Semantic errors' in p.stdout or 'Parse Error' in p.stdout \
            or p.returncode != 0:
        raise TLCFailure(p.stdout[-3000:])


def parse_json_lines(printed: list[str]) -> list[Any]:
    """TLC PrintT of ToJson strings: lines look like "\"{...}\"" ."""
    out = []
    for line in printed:
        line = line.strip()
        if line.startswith('"'):
            try:
                s = json.loads(line)
                out.append(json.loads(s))
            except Exception:  # noqa: BLE001
                continue
    return out
