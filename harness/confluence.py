"""Small-scope check of the lemma behind Comm.tla's reduced configurations.

`SpecPOR` / `SpecLIN` (spec/Comm.tla) explore one prioritised interleaving
instead of all of them.  That is sound because the transition system of Comm
is *persistent and commutative*: an enabled action stays enabled until it is
taken, and two different enabled actions commute (diamond), hence every
maximal behaviour of one program set reaches the same final state after the
same number of steps (a stall is reachable iff the prioritised behaviour
stalls).  The comment in Comm.tla argues this in prose; here it is DECIDED on
the state graph TLC generates from the unreduced `Next`, for every program set
of a small scope -- including ill-formed ones (mismatching metadata, waits for
slots never issued, foreign groups, diverging new_group sequences), which are
exactly the programs a broken kfac would produce:

  for every reachable state s and distinct actions a, b enabled in s
     a is deterministic,  b is enabled in a(s),  a is enabled in b(s),
     b(a(s)) = a(b(s));
  every program set has exactly one terminal state, all maximal paths to it
  have equal length.

Many program sets are checked by one TLC run: the instance gets an extra
variable `pid` (chosen in the initial state, never changed) and
`Prog == Progs[pid]`.  Actions are recovered from the state difference
(pc / ngi of one rank, completed of one group, ngc), so nothing depends on how
TLC labels edges.

A failure here is a defect of the MACHINERY (the reduced configs could then
hide a stall), never of kfac: callers raise, they do not report a violation.
"""

from __future__ import annotations

import itertools
import os
import random
import re
import tempfile
from typing import Any, Iterable

from harness.progs import instantiate
from harness.tlc import run_tlc, tla

MEMBERS = {
    2: {0: (0, 1), 1: (1,)},
    3: {0: (0, 1, 2), 1: (0, 1), 2: (1, 2)},
}


def _I(g: int, meta: str) -> dict:
    return {'t': 'I', 'g': g, 'i': 0, 'kind': 'allreduce' if meta == 'a'
            else 'broadcast', 'root': -1 if meta == 'a' else 1,
            'numel': 4, 'dtype': 'f32', 'ranks': set()}


def _W(g: int, i: int) -> dict:
    return {'t': 'W', 'g': g, 'i': i, 'kind': 'wait', 'root': -1,
            'numel': 0, 'dtype': 'none', 'ranks': set()}


def _NG(ranks: tuple[int, ...]) -> dict:
    return {'t': 'NG', 'g': -1, 'i': 0, 'kind': 'new_group', 'root': -1,
            'numel': 0, 'dtype': 'none', 'ranks': set(ranks)}


def _F() -> dict:
    return {'t': 'F', 'g': -1, 'i': 0, 'kind': 'broadcast', 'root': -1,
            'numel': 0, 'dtype': 'none', 'ranks': set()}


def alphabet(W: int, rich: bool) -> list[dict]:
    gs = sorted(MEMBERS[W])
    ops = [_I(g, 'a') for g in gs] + [_W(g, 1) for g in gs]
    ops += [_I(0, 'b'), _W(0, 2), _NG(tuple(range(W)))]
    if rich:
        ops += [_F(), _NG((0,)), _I(gs[-1], 'b')]
    return ops


def number(prog: list[dict]) -> list[dict]:
    """Ordinals of NG ops (the k-th new_group call of a rank has i = k)."""
    out, k = [], 0
    for op in prog:
        op = dict(op)
        if op['t'] == 'NG':
            k += 1
            op['i'] = k
        out.append(op)
    return out


def exhaustive(W: int, L: int, rich: bool = False) -> Iterable[list[list[dict]]]:
    al = alphabet(W, rich)
    per_rank = [list(p) for n in range(L + 1)
                for p in itertools.product(al, repeat=n)]
    for combo in itertools.product(per_rank, repeat=W):
        yield [number(list(p)) for p in combo]


def spmd_mutants(W: int, n: int, rng: random.Random, L: int = 7
                 ) -> list[list[list[dict]]]:
    """Well-formed SPMD programs (every member issues the same operations on
    a group, then waits) with at most two random edits: deeper graphs with
    mostly-successful runs, the shape of real kfac programs."""
    al = alphabet(W, True)
    out = []
    for _ in range(n):
        glob: list[tuple] = []
        cnt = {g: 0 for g in MEMBERS[W]}
        for _ in range(rng.randint(2, L)):
            c = rng.random()
            if c < 0.15:
                glob.append(('NG',))
            else:
                g = rng.choice(sorted(MEMBERS[W]))
                cnt[g] += 1
                glob.append(('C', g, cnt[g], rng.choice('ab'),
                             rng.random() < 0.5))
        progs: list[list[dict]] = []
        for r in range(W):
            p: list[dict] = []
            pend: list[dict] = []
            for e in glob:
                if e[0] == 'NG':
                    p.append(_NG(tuple(range(W))))
                elif r in MEMBERS[W][e[1]]:
                    p.append(_I(e[1], e[3]))
                    if e[4]:
                        p.append(_W(e[1], e[2]))
                    else:
                        pend.append(_W(e[1], e[2]))
            p += pend
            progs.append(p)
        for _ in range(rng.randint(0, 2)):
            r = rng.randrange(W)
            if not progs[r]:
                continue
            k = rng.randrange(len(progs[r]))
            c = rng.random()
            if c < 0.4:
                del progs[r][k]
            elif c < 0.7:
                progs[r][k] = dict(rng.choice(al))
            else:
                progs[r].insert(k, dict(rng.choice(al)))
        out.append([number(p) for p in progs])
    return out


def module(name: str, W: int, progsets: list[list[list[dict]]],
           mutate: tuple[str, str] | None = None) -> str:
    mem = {g: set(m) for g, m in MEMBERS[W].items()}
    plist = [{r: p for r, p in enumerate(ps)} for ps in progsets]
    defs = (
        'VARIABLE pid\n'
        f'Ranks == 0..{W - 1}\n'
        f'Groups == {tla(set(mem))}\n'
        f'Members == {tla(mem)}\n'
        'Progs == <<\n  ' + ',\n  '.join(tla(p) for p in plist) + '\n>>\n'
        'Prog == Progs[pid]\n'
    )
    src = instantiate('Comm', name, defs)
    if mutate is not None:          # self-test: a deliberately broken model
        assert mutate[0] in src
        src = src.replace(mutate[0], mutate[1])
    i = src.rindex('====')
    src = src[:i].rstrip('=\n') + (
        '\nInitM == pid \\in 1..Len(Progs) /\\ Init\n'
        'NextM == Next /\\ UNCHANGED pid\n' + '=' * 77 + '\n')
    return src


_FN = re.compile(r'(-?\d+) :> (-?\d+)')
_NODE = re.compile(r'^(-?\d+) \[label="(.*?)",(?:style|tooltip)')
_EDGE = re.compile(r'^(-?\d+) -> (-?\d+) \[')


def _field(label: str, var: str) -> str:
    m = re.search(r'/\\\\ ' + var + r' = (.*?)(?:\\n/\\\\ |$)', label)
    if not m:
        raise RuntimeError(f'no {var} in {label[:200]}')
    return m.group(1)


def _fn(s: str) -> tuple[tuple[int, int], ...]:
    return tuple((int(a), int(b)) for a, b in _FN.findall(s))


def parse_dot(path: str) -> tuple[dict[int, tuple], list[tuple[int, int]]]:
    nodes: dict[int, tuple] = {}
    edges: list[tuple[int, int]] = []
    with open(path) as f:
        for line in f:
            m = _EDGE.match(line)
            if m:
                edges.append((int(m.group(1)), int(m.group(2))))
                continue
            m = _NODE.match(line)
            if m:
                lab = m.group(2)
                nodes[int(m.group(1))] = (
                    _fn(_field(lab, 'pc')), _fn(_field(lab, 'ngi')),
                    _fn(_field(lab, 'completed')),
                    int(_field(lab, 'ngc')), int(_field(lab, 'pid')))
    return nodes, edges


def action(a: tuple, b: tuple) -> tuple:
    """Identity of the action leading from state a to state b."""
    ch = []
    for k, (x, y) in enumerate(zip(a[0], b[0])):
        if x != y:
            ch.append(('rank', x[0]))
    for k, (x, y) in enumerate(zip(a[1], b[1])):
        if x != y:
            ch.append(('rank', x[0]))
    for x, y in zip(a[2], b[2]):
        if x != y:
            ch.append(('complete', x[0]))
    if a[3] != b[3]:
        ch.append(('ngcomplete',))
    if len(ch) != 1:
        raise RuntimeError(f'edge is not one action: {a} -> {b}: {ch}')
    return ch[0]


def check_graph(nodes: dict[int, tuple], edges: list[tuple[int, int]]
                ) -> dict[str, Any]:
    """Persistence + diamond + unique terminal state per program set."""
    out: dict[int, dict[tuple, int]] = {n: {} for n in nodes}
    for s, t in edges:
        if s == t:
            continue                      # Terminated (stuttering)
        if nodes[s][4] != nodes[t][4]:
            raise RuntimeError('pid changed along an edge')
        a = action(nodes[s], nodes[t])
        if out[s].setdefault(a, t) != t:
            return {'ok': False, 'why': 'nondeterministic action', 'state': s,
                    'action': a}
    diamonds = 0
    for s, acts in out.items():
        if len(acts) < 2:
            continue
        for a, b in itertools.combinations(sorted(acts), 2):
            ta, tb = acts[a], acts[b]
            if b not in out[ta] or a not in out[tb]:
                return {'ok': False, 'why': 'action disabled by another one',
                        'state': nodes[s], 'actions': [a, b]}
            if out[ta][b] != out[tb][a]:
                return {'ok': False, 'why': 'actions do not commute',
                        'state': nodes[s], 'actions': [a, b]}
            diamonds += 1
    sinks: dict[int, list[int]] = {}
    for s, acts in out.items():
        if not acts:
            sinks.setdefault(nodes[s][4], []).append(s)
    pids = {v[4] for v in nodes.values()}
    for p in pids:
        if len(sinks.get(p, [])) != 1:
            return {'ok': False, 'why': 'not exactly one terminal state',
                    'pid': p, 'n': len(sinks.get(p, []))}
    return {'ok': True, 'states': len(nodes), 'edges': len(edges),
            'diamonds': diamonds, 'program_sets': len(pids),
            'branching_states': sum(1 for a in out.values() if len(a) > 1)}


def check_batch(arg: tuple) -> dict[str, Any]:
    W, progsets, tag = arg[:3]
    name = 'MC_Confl_' + tag
    src = module(name, W, progsets, arg[3] if len(arg) > 3 else None)
    d = tempfile.mkdtemp(prefix='verif_confl_')
    dot = os.path.join(d, 'g.dot')
    try:
        r = run_tlc(name, cfg_text='INIT InitM\nNEXT NextM\n'
                    'CHECK_DEADLOCK FALSE\n', extra_modules={name: src},
                    workers=2, timeout=1200, dump_dot=dot)
        if not r.ok:
            raise RuntimeError(f'TLC failed on {name}: {r.error_text[:600]}')
        nodes, edges = parse_dot(dot)
        if len(nodes) != r.distinct:
            raise RuntimeError(
                f'{name}: parsed {len(nodes)} states, TLC found {r.distinct}')
        res = check_graph(nodes, edges)
        res['W'] = W
        return res
    finally:
        import shutil
        shutil.rmtree(d, ignore_errors=True)


def batches(tier: str, seed: int) -> list[tuple[int, list, str]]:
    rng = random.Random(seed * 7919 + 13)
    jobs: list[tuple[int, list, str]] = []
    if tier == 'quick':
        ex2 = list(exhaustive(2, 2))
        rng.shuffle(ex2)
        jobs.append((2, ex2[:1500], 'q2'))
        jobs.append((2, spmd_mutants(2, 250, rng), 'q2m'))
        jobs.append((3, spmd_mutants(3, 120, rng, L=5), 'q3m'))
    else:
        ex2 = list(exhaustive(2, 2, rich=True))
        for k in range(0, len(ex2), 3000):
            jobs.append((2, ex2[k:k + 3000], f't2_{k}'))
        ex3 = list(exhaustive(3, 1, rich=True))
        for k in range(0, len(ex3), 3000):
            jobs.append((3, ex3[k:k + 3000], f't3_{k}'))
        big = list(exhaustive(2, 3))
        rng.shuffle(big)
        for k in range(0, 24000, 3000):
            jobs.append((2, big[k:k + 3000], f't2L3_{k}'))
        for k in range(6):
            jobs.append((2, spmd_mutants(2, 400, rng), f't2m{k}'))
            jobs.append((3, spmd_mutants(3, 150, rng, L=6), f't3m{k}'))
    return jobs
