"""Shared helpers: repo import, evidence files, known findings, verdicts."""

from __future__ import annotations

import hashlib
import json
import os
import sys
import time
import warnings
from typing import Any

VERIF = os.path.dirname(os.path.dirname(os.path.abspath(__file__)))
REPO = os.environ.get('VERIF_REPO', '/repo')
# where evidence / replay files go (regression runs against scratch copies of
# the repository redirect them so that /verif/evidence is not overwritten)
OUT = os.environ.get('VERIF_OUT', '/verif')
sys.dont_write_bytecode = True


def setup_repo_import() -> None:
    """Make `import kfac` resolve to the working tree of REPO."""
    if REPO not in sys.path:
        sys.path.insert(0, REPO)
    stubs = os.path.join(VERIF, 'harness', 'stubs')
    if stubs not in sys.path:
        sys.path.append(stubs)
    warnings.filterwarnings('ignore')
    import kfac  # noqa: F401

    p = os.path.realpath(os.path.dirname(kfac.__file__))
    want = os.path.realpath(os.path.join(REPO, 'kfac'))
    if p != want:
        raise RuntimeError(f'kfac imported from {p}, expected {want}')


def seed_from_env(default: int = 0) -> int:
    try:
        return int(os.environ.get('VERIF_SEED', default))
    except ValueError:
        return default


def canon(obj: Any) -> str:
    return json.dumps(obj, sort_keys=True, default=str)


def chash(obj: Any) -> str:
    return hashlib.sha1(canon(obj).encode()).hexdigest()[:12]


class Findings:
    """Known findings file (never written at run time)."""

    def __init__(self) -> None:
        path = os.path.join(VERIF, 'known_findings.json')
        self.entries: list[dict[str, Any]] = []
        if os.path.exists(path):
            with open(path) as f:
                data = json.load(f)
            self.entries = data.get('findings', [])

    def match(self, prop: str, signature: dict[str, Any]) -> dict | None:
        """Return the open finding whose signature is contained in signature."""
        for e in self.entries:
            if e.get('status') != 'open' or e.get('property') != prop:
                continue
            sig = e.get('signature', {})
            if all(signature.get(k) == v for k, v in sig.items()):
                return e
        return None


class Verdict:
    """Collects violations / known findings / notes and writes evidence."""

    def __init__(self, prop: str, tier: str, seed: int, level: str) -> None:
        self.prop = prop
        self.tier = tier
        self.seed = seed
        self.level = level
        self.t0 = time.time()
        self.violations: list[dict[str, Any]] = []
        self.known: list[str] = []
        self.notes: list[str] = []
        self.coverage: dict[str, Any] = {}
        self.assumptions: list[str] = []
        self.findings = Findings()
        self._known_seen: set[str] = set()
        self._viol_seen: set[str] = set()

    def violation(self, what: str, signature: dict[str, Any],
                  replay: dict[str, Any] | None = None) -> None:
        """Report a property violation; downgraded if it is a known finding."""
        f = self.findings.match(self.prop, signature)
        if f is not None:
            key = f.get('id', canon(f.get('signature')))
            if key not in self._known_seen:
                self._known_seen.add(key)
                self.known.append(
                    f'KNOWN-FINDING: property={self.prop} {f.get("what")}',
                )
            return
        key = chash(signature)
        if key in self._viol_seen:
            return
        self._viol_seen.add(key)
        path = None
        if replay is not None or True:
            d = os.path.join(OUT, 'replays', self.prop)
            os.makedirs(d, exist_ok=True)
            path = os.path.join(d, f'{key}.json')
            with open(path, 'w') as fp:
                json.dump(
                    {'property': self.prop, 'what': what,
                     'signature': signature, 'replay': replay,
                     'seed': self.seed, 'tier': self.tier},
                    fp, indent=1, default=str,
                )
        self.violations.append(
            {'what': what, 'signature': signature, 'replay': path},
        )

    def note(self, msg: str) -> None:
        if msg not in self.notes:
            self.notes.append(msg)

    def finish(self) -> int:
        """Print verdict lines, write evidence, return exit code."""
        cov = dict(self.coverage)
        ev = {
            'property_id': self.prop,
            'tier': self.tier,
            'seed': self.seed,
            'level': self.level,
            'coverage': cov,
            'assumptions': self.assumptions,
            'wall_s': round(time.time() - self.t0, 2),
            'violations': len(self.violations),
            'known_findings': self.known,
            'notes': self.notes[:50],
        }
        d = os.path.join(OUT, 'evidence')
        os.makedirs(d, exist_ok=True)
        with open(os.path.join(d, f'{self.prop}.json'), 'w') as f:
            json.dump(ev, f, indent=1, default=str)
        for n in self.notes[:20]:
            print(f'NOTE {n}')
        for k in self.known:
            print(k)
        for v in self.violations[:10]:
            print(f'VIOLATION property={self.prop} replay={v["replay"]}')
            print(f'  what: {v["what"]}')
        if self.violations:
            return 1
        print(f'OK property={self.prop} tier={self.tier} '
              f'wall={ev["wall_s"]}s')
        return 0
