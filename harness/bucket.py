"""spec/Bucket.tla: program generation + replay into the real communicator."""

from __future__ import annotations

import json
from typing import Any

import torch

from harness import simdist
from harness.progs import instantiate
from harness.tlc import run_tlc, tla, TLCResult

# tensor types: name, shape, dtype;  bytes / symbytes derived
TYPES = [
    ('v250', (250,), 'float32'),       # 1000 B
    ('v500', (500,), 'float32'),       # 2000 B
    ('m10', (10, 10), 'float32'),      # 400 B, sym 220 B
    ('m16d', (16, 16), 'float64'),     # 2048 B, sym 1088 B
    ('r3x5', (3, 5), 'float32'),       # 60 B, not square
]
DT = {'float32': torch.float32, 'float64': torch.float64}


def type_records(types: list[tuple]) -> str:
    recs = []
    for name, shape, dt in types:
        n = 1
        for s in shape:
            n *= s
        el = 4 if dt == 'float32' else 8
        square = len(shape) == 2 and shape[0] == shape[1]
        symn = shape[0] * (shape[0] + 1) // 2 if square else n
        recs.append(f'[bytes |-> {n * el}, symbytes |-> {symn * el}, '
                    f'dt |-> "{dt}", square |-> {tla(square)}]')
    return '<<' + ', '.join(recs) + '>>'


def gen_programs(cap: int, keymode: str, dtmode: str, types: list[tuple],
                 roles: list[str], max_calls: int, emit: bool = True,
                 insts: tuple = ('both',),
                 simulate: int | None = None, seed: int = 0,
                 invariants: list[str] | None = None, workers: int = 6,
                 ) -> tuple[TLCResult, list[dict[str, Any]]]:
    defs = (f'Cap == {cap}\nKeyMode == "{keymode}"\nDtMode == "{dtmode}"\n'
            f'Types == {type_records(types)}\nRoles == {tla(set(roles))}\n'
            f'MaxCalls == {max_calls}\nInsts == {tla(set(insts))}\n')
    name = 'MC_Bucket'
    mod = instantiate('Bucket', name, defs)
    invs = invariants if invariants is not None else [
        'ExactlyOnce', 'NothingPending', 'CapRespected',
        'ReducedInRequestedGroup', 'OneDtypePerWireOp', 'WireMatches']
    cfg = 'SPECIFICATION Spec\n' + ''.join(
        f'INVARIANT {i}\n' for i in invs)
    if emit:
        cfg += 'INVARIANT Emit\n'
    cfg += 'CHECK_DEADLOCK FALSE\n'
    if simulate:
        r = run_tlc(name, cfg_text=cfg, extra_modules={name: mod}, workers=1,
                    simulate=f'num={simulate}', depth=max_calls + 1,
                    seed=seed, deadlock=False, timeout=1800)
    else:
        r = run_tlc(name, cfg_text=cfg, extra_modules={name: mod},
                    workers=workers, deadlock=False, timeout=1800)
    out, seen = [], set()
    for line in r.stdout.splitlines():
        if line.startswith('"{'):
            try:
                d = json.loads(json.loads(line))
            except Exception:  # noqa: BLE001
                continue
            k = json.dumps(d['prog'], sort_keys=True)
            if k not in seen:
                seen.add(k)
                out.append(d)
    return r, out


def make_tensor(types: list[tuple], ty: int, tid: int, rank: int,
                sym: bool) -> torch.Tensor:
    """Position-, id- and rank-revealing contents (exact in float32)."""
    name, shape, dt = types[ty - 1]
    n = 1
    for s in shape:
        n *= s
    idx = torch.arange(n, dtype=torch.float64).reshape(shape)
    if sym and len(shape) == 2 and shape[0] == shape[1]:
        i = torch.arange(shape[0]).reshape(-1, 1).double()
        j = torch.arange(shape[0]).reshape(1, -1).double()
        idx = torch.minimum(i, j) * shape[0] + torch.maximum(i, j)
    t = idx + 1000.0 * tid + (10 ** rank) * 0.0 + (3 ** rank) * 100000.0
    return t.to(DT[dt])


def members(r: int, role: str) -> set[int]:
    role = {'worldx': 'world', 'rowx': 'row'}.get(role, role)
    return {'world': {0, 1, 2, 3}, 'row': {0, 1} if r in (0, 1) else {2, 3},
            'col': {0, 2} if r in (0, 2) else {1, 3}, 'self': {r}}[role]


def participates(r: int, c: dict[str, Any]) -> bool:
    inst = c.get('inst', 'both')
    if inst == 'both' or c['g'] in ('world', 'worldx', 'self'):
        return True
    first = 0 in members(r, c['g'])
    return first if inst == 'first' else not first


def execute(d: dict[str, Any], types: list[tuple], cap: int,
            policy: simdist.Policy, bucketed_world: bool = True,
            ) -> dict[str, Any]:
    """Run the program on 4 ranks with a real TorchDistributedCommunicator."""
    from kfac.distributed import NonSquareTensorError
    from kfac.distributed import TorchDistributedCommunicator

    prog = d['prog']
    results: dict[int, dict[int, Any]] = {}
    errors: dict[int, str] = {}

    def body(r: int) -> None:
        import torch.distributed as dist

        row = dist.new_group([0, 1])
        row2 = dist.new_group([2, 3])
        col = dist.new_group([0, 2])
        col2 = dist.new_group([1, 3])
        selfs = [dist.new_group([q]) for q in range(4)]
        worldx = dist.new_group([0, 1, 2, 3])
        rowx = dist.new_group([0, 1])
        rowx2 = dist.new_group([2, 3])
        groups = {'world': None, 'worldx': worldx,
                  'rowx': rowx if r in (0, 1) else rowx2,
                  'row': row if r in (0, 1) else row2,
                  'col': col if r in (0, 2) else col2,
                  'self': selfs[r]}
        comm = TorchDistributedCommunicator(bucket_cap_mb=cap / 1e6)
        futs: dict[int, Any] = {}
        res: dict[int, Any] = {}
        for c in prog:
            if c['op'] == 'flush':
                comm.flush_allreduce_buckets()
                continue
            if not participates(r, c):
                continue
            t = make_tensor(types, c['ty'], c['id'], r, c['sym'])
            fn = comm.allreduce if (c['op'] == 'ar' or not bucketed_world) \
                else comm.allreduce_bucketed
            try:
                futs[c['id']] = fn(t, average=c['avg'], group=groups[c['g']],
                                   symmetric=c['sym'])
            except NonSquareTensorError:
                res[c['id']] = 'rejected'
        comm.flush_allreduce_buckets()
        for i, f in futs.items():
            if isinstance(f, torch.Tensor):
                res[i] = f
            else:
                res[i] = f.wait()
        results[r] = res
        # a second flush must be a no-op
        comm.flush_allreduce_buckets()

    world = simdist.World(4, policy)
    world.run(body)
    for rs in world.ranks:
        if rs.error is not None:
            errors[rs.rank] = f'{type(rs.error).__name__}: {rs.error}'[:300]
    wire: dict[int, list] = {r: [] for r in range(4)}
    for e in world.events:
        if e['ev'] == 'issue' and e['kind'] == 'all_reduce':
            wire[e['rank']].append(
                {'members': list(world.groups[e['group']]),
                 'numel': e['numel'], 'dtype': e['dtype']})
    return {'results': results, 'errors': errors, 'wire': wire,
            'monitors': world.monitors}
