"""Run the real GPTNeoXKFACPreconditioner on simdist with Megatron-style
sharded layers (harness classes named ColumnParallelLinear /
RowParallelLinear) and compare with spec/KfacRef.tla terms interpreted on the
UNSHARDED layers over the union batch."""

from __future__ import annotations

import io
import os
import shutil
import tempfile
import warnings
from typing import Any

import torch
import torch.distributed as dist

from harness import kaisa, simdist
from harness.refreplay import peek, rel, LinalgLog, TOL_GRAD, TOL_FACTOR
from harness.terms import Interp

IN, HID, OUT = 4, 6, 3


class _CopyToMP(torch.autograd.Function):
    @staticmethod
    def forward(ctx, x, group):
        ctx.group = group
        return x

    @staticmethod
    def backward(ctx, g):
        if ctx.group is not None and dist.get_world_size(ctx.group) > 1:
            g = g.clone()
            with simdist.owner('driver'):
                dist.all_reduce(g, group=ctx.group)
        return g, None


class _ReduceFromMP(torch.autograd.Function):
    @staticmethod
    def forward(ctx, x, group):
        if group is not None and dist.get_world_size(group) > 1:
            x = x.clone()
            with simdist.owner('driver'):
                dist.all_reduce(x, group=group)
        return x

    @staticmethod
    def backward(ctx, g):
        return g, None


class ColumnParallelLinear(torch.nn.Module):
    """Output-parallel linear layer: weight (out / M, in), bias (out / M)."""

    def __init__(self, w: torch.Tensor, b: torch.Tensor | None, group: Any):
        super().__init__()
        self.weight = torch.nn.Parameter(w.clone())
        self.bias = None if b is None else torch.nn.Parameter(b.clone())
        self.group = group

    def forward(self, x):
        x = _CopyToMP.apply(x, self.group)
        return torch.nn.functional.linear(x, self.weight, self.bias)


class RowParallelLinear(torch.nn.Module):
    """Input-parallel linear layer: weight (out, in / M), bias (out)."""

    def __init__(self, w: torch.Tensor, b: torch.Tensor | None, group: Any):
        super().__init__()
        self.weight = torch.nn.Parameter(w.clone())
        self.bias = None if b is None else torch.nn.Parameter(b.clone())
        self.group = group

    def forward(self, x):
        y = torch.nn.functional.linear(x, self.weight)
        y = _ReduceFromMP.apply(y, self.group)
        return y if self.bias is None else y + self.bias


# model layouts: key -> (kind, in, out, registered name)
MODELS = {
    'simple': {'col': ('col', IN, HID, 'layers.0'),
               'row': ('row', HID, OUT, 'layers.2')},
    # GPT-NeoX style names keyed by the global pipeline index: the name of
    # one layer is a suffix of another's ('2.mlp.up' / '12.mlp.up')
    # a single sharded layer: the per-shard contributions to the clip sum
    # are not averaged out by other layers
    'col1': {'col': ('col', IN, HID, 'layers.0')},
    'row1': {'row': ('row', HID, OUT, 'layers.0')},
    'deep': {'col': ('col', IN, HID, '2.mlp.up'),
             'row': ('row', HID, IN, '2.mlp.down'),
             'col2': ('col', IN, HID, '12.mlp.up'),
             'row2': ('row', HID, OUT, '12.mlp.down')},
}


def layout(g: dict[str, Any]) -> dict[str, tuple]:
    return MODELS[g.get('model', 'simple')]


def stage_layout(g: dict[str, Any], p: int) -> dict[str, tuple]:
    """The layers owned by pipeline stage p (consecutive blocks)."""
    lay = layout(g)
    P = g.get('P', 1)
    if P == 1:
        return lay
    keys = list(lay)
    per = len(keys) // P
    hi = (p + 1) * per if p < P - 1 else len(keys)   # the last stage takes
    return {k: lay[k] for k in keys[p * per:hi]}     # the remainder (uneven)


def coords(g: dict[str, Any], rank: int) -> tuple[int, int, int]:
    D, M = g['D'], g['M']
    return rank // (D * M), (rank % (D * M)) // M, rank % M


def kind_of(key: str) -> str:
    return 'col' if key.startswith('col') else 'row'


def full_params(seed: int, g: dict[str, Any]) -> dict[str, torch.Tensor | None]:
    gen = torch.Generator().manual_seed(4242 + seed)
    out: dict[str, Any] = {}
    for key, (kind, nin, nout, _) in layout(g).items():
        out[f'{key}.weight'] = torch.randn(nout, nin, generator=gen) * 0.5
        has_b = g.get('bias_col', True) if kind == 'col' else \
            g.get('bias_row', True)
        out[f'{key}.bias'] = torch.randn(nout, generator=gen) * 0.5 \
            if has_b else None
    return out


def shard(name: str, t: torch.Tensor | None, m: int, M: int):
    if t is None:
        return None
    key, pn = name.split('.')
    if kind_of(key) == 'col':
        return t.chunk(M, 0)[m]
    if pn == 'weight':
        return t.chunk(M, 1)[m]
    return t


def assemble(name: str, shards: list[torch.Tensor]) -> torch.Tensor:
    key, pn = name.split('.')
    if kind_of(key) == 'col':
        return torch.cat(shards, 0)
    if pn == 'weight':
        return torch.cat(shards, 1)
    return shards[0]


NAMES = {k: v[3] for k, v in MODELS['simple'].items()}   # simple model


def names_of(g: dict[str, Any]) -> dict[str, str]:
    return {k: v[3] for k, v in layout(g).items()}


def make_full_layers(fp: dict[str, Any], g: dict[str, Any] | None = None,
                     ) -> dict[str, torch.nn.Module]:
    out = {}
    for key, (kind, nin, nout, name) in layout(g or {}).items():
        out[name] = torch.nn.Linear(nin, nout,
                                    bias=fp[f'{key}.bias'] is not None)
    return out


class Box(torch.nn.Module):
    pass


class GptRank:
    def __init__(self, cfg: kaisa.Config, seed: int, rank: int,
                 groups: dict[str, Any]) -> None:
        from deepspeed.pipe import PipelineModule
        from deepspeed.runtime.pipe.topology import (
            PipeModelDataParallelTopology)

        g = cfg.gpt
        self.cfg, self.seed, self.rank = cfg, seed, rank
        self.D, self.M = g['D'], g['M']
        self.P = g.get('P', 1)
        self.p, self.d, self.m = coords(g, rank)
        self.groups = groups
        self.fp = full_params(seed, g)
        self.build_model()
        self.pre = self.build_pre()
        self.it = 0
        self.ckpt = None

    def build_model(self) -> None:
        from deepspeed.pipe import PipelineModule
        from deepspeed.runtime.pipe.topology import (
            PipeModelDataParallelTopology)

        mp = self.groups['mp']
        sp = {n: shard(n, t, self.m, self.M) for n, t in self.fp.items()}
        self.klayers: dict[str, torch.nn.Module] = {}
        mine = stage_layout(self.cfg.gpt, self.p)
        for key, (kind, nin, nout, name) in mine.items():
            cls = ColumnParallelLinear if kind == 'col' else RowParallelLinear
            self.klayers[key] = cls(sp[f'{key}.weight'], sp[f'{key}.bias'], mp)
        topo = PipeModelDataParallelTopology(num_pp=self.P, num_mp=self.M,
                                             num_dp=self.D)
        if self.cfg.gpt.get('model', 'simple') == 'simple':
            self.col, self.row = self.klayers['col'], self.klayers['row']
            seq = torch.nn.Sequential(self.col, kaisa.Act(), self.row)
            self.model = PipelineModule(layers=seq, topology=topo)
        else:
            self.model = PipelineModule(topology=topo)
            for key, (kind, nin, nout, name) in mine.items():
                node = self.model
                parts = name.split('.')
                for seg in parts[:-1]:
                    if seg not in dict(node.named_children()):
                        node.add_module(seg, Box())
                    node = getattr(node, seg)
                node.add_module(parts[-1], self.klayers[key])

    def build_pre(self) -> Any:
        from kfac.gpt_neox.preconditioner import GPTNeoXKFACPreconditioner

        cfg = self.cfg
        with warnings.catch_warnings():
            warnings.simplefilter('ignore')
            return GPTNeoXKFACPreconditioner(
                self.model,
                factor_update_steps=kaisa.hp(cfg.F),
                inv_update_steps=kaisa.hp(cfg.I),
                damping=kaisa.hp(cfg.damping),
                factor_decay=kaisa.hp(cfg.decay),
                kl_clip=kaisa.hp(cfg.kl_clip), lr=kaisa.hp(cfg.lr),
                accumulation_steps=cfg.accum,
                allreduce_bucket_cap_mb=cfg.bucket_cap_mb,
                symmetry_aware=cfg.symmetry,
                data_parallel_group=self.groups['dp'],
                model_parallel_group=self.groups['mp'],
                pipeline_parallel_group=self.groups.get('pp'),
                update_factors_in_hook=cfg.in_hook,
                factor_checkpoint_dir=cfg.gpt.get('ckpt_dir'),
            )

    def named_grads(self) -> dict[str, torch.Tensor]:
        out = {}
        for ln, mod in self.klayers.items():
            out[f'{ln}.weight'] = mod.weight.grad.detach().clone()
            if mod.bias is not None:
                out[f'{ln}.bias'] = mod.bias.grad.detach().clone()
        return out

    def forward_backward(self, train: bool, mb: int, caps: dict | None,
                         pid: int) -> None:
        cfg = self.cfg
        self.model.train(train)
        one = kaisa.Config(**{**cfg.to_json(), 'model': 'mlp3', 'union': 1})
        x, y = kaisa.make_batch(one, self.seed, self.d, self.it, mb,
                                torch.float32)
        lay = list(stage_layout(cfg.gpt, self.p).values())
        n_in, n_out = lay[0][1], lay[-1][2]
        if x.shape[1] != n_in:
            x = torch.cat([x] * (n_in // x.shape[1] + 1), 1)[:, :n_in]
        x = x.contiguous()
        if lay[0][0] == 'row':
            # an input-parallel first layer receives its shard of the input
            x = x.chunk(self.M, -1)[self.m].contiguous()
        y = torch.cat([y] * (n_out // y.shape[1] + 1), 1)[:, :n_out]
        y = y.contiguous()
        if lay[-1][0] == 'col':
            # an output-parallel last layer produces its shard of the output
            y = y.chunk(self.M, -1)[self.m].contiguous()
        handles = []
        if caps is not None:
            def fwd_hook(key):
                def h(mod, inp):
                    caps.setdefault((pid, key, 'x', self.d, self.m),
                                    inp[0].detach().clone())
                return h

            def bwd_hook(key):
                def h(mod, gin, gout):
                    caps.setdefault((pid, key, 'g', self.d, self.m),
                                    gout[0].detach().clone())
                return h
            for key, mod in self.klayers.items():
                handles.append(mod.register_forward_pre_hook(fwd_hook(key)))
                handles.append(mod.register_full_backward_hook(bwd_hook(key)))
        out = x
        keys = list(self.klayers)
        for j, key in enumerate(keys):
            out = self.klayers[key](out)
            if j < len(keys) - 1:
                out = torch.tanh(out)
        loss = ((out - y) ** 2).sum() / (2 * x.shape[0])
        loss.backward()
        for hd in handles:
            hd.remove()

    def train(self, n_micro: int, caps: dict, pid0: int, train: bool = True,
              ) -> int:
        self.model.zero_grad(set_to_none=True)
        pid = pid0
        for mb in range(n_micro):
            pid += 1
            self.forward_backward(train, mb, caps, pid)
        with torch.no_grad():
            for p in self.model.parameters():
                if p.grad is not None and n_micro > 1:
                    p.grad.div_(n_micro)
        if self.D > 1:
            with simdist.owner('driver'):
                for p in self.model.parameters():
                    if p.grad is not None:
                        dist.all_reduce(p.grad, group=self.groups['dp'])
                        p.grad.div_(self.D)
        self.it += 1
        return pid


def make_groups(rank: int, D: int, M: int, P: int = 1) -> dict[str, Any]:
    """DP / MP groups of every pipeline stage, created by all ranks in the
    same order (driver)."""
    out: dict[str, Any] = {}
    with simdist.owner('driver'):
        for p in range(P):
            b = p * D * M
            for d in range(D):
                rs = [b + d * M + m for m in range(M)]
                gp = dist.new_group(rs)
                if rank in rs:
                    out['mp'] = gp
            for m in range(M):
                rs = [b + d * M + m for d in range(D)]
                gp = dist.new_group(rs)
                if rank in rs:
                    out['dp'] = gp
        out['pp'] = None
        if P > 1:
            # DeepSpeed's pipe-parallel groups: same (data, model) coordinate
            for dm in range(D * M):
                rs = [p * D * M + dm for p in range(P)]
                gp = dist.new_group(rs)
                if rank in rs:
                    out['pp'] = gp
    return out


def execute(cfg: kaisa.Config, hist: list[dict[str, Any]], seed: int,
            policy: simdist.Policy | None = None) -> dict[str, Any]:
    """All ranks run the history; returns per-rank records + captures."""
    g = cfg.gpt
    D, M, P = g['D'], g['M'], g.get('P', 1)
    W = P * D * M
    caps: dict[tuple, torch.Tensor] = {}
    recs: dict[int, list[dict[str, Any]]] = {r: [] for r in range(W)}

    def body(r: int) -> None:
        simdist.set_ctx({'op': 'construct', 'n': -1})
        groups = make_groups(r, D, M, P)
        gr = GptRank(cfg, seed, r, groups)
        pid = 0
        for i, rec in enumerate(hist):
            act, arg = rec['act'], rec['arg']
            simdist.set_ctx({'op': act, 'n': i})
            out: dict[str, Any] = {'raised': None}
            ll = LinalgLog()
            try:
                with ll:
                    if act == 'train':
                        pid = gr.train(arg, caps, pid)
                    elif act == 'eval':
                        pid = gr.train(1, caps, pid, train=False)
                    elif act == 'step':
                        cg = (cfg.gpt.get('craft_grads') or {}).get(i)
                        if cg:
                            # gradients chosen by the driver (any gradient
                            # is a legal input of step()): the shards of a
                            # crafted full gradient, same on all replicas
                            with torch.no_grad():
                                for ln, mod in gr.klayers.items():
                                    full = cg.get(f'{ln}.weight')
                                    if full is not None:
                                        mod.weight.grad = shard(
                                            f'{ln}.weight', full, gr.m, gr.M
                                        ).clone().contiguous()
                        out['pre_grads'] = gr.named_grads()
                        gr.pre.step()
                        out['grads'] = gr.named_grads()
                    elif act == 'save':
                        sd = gr.pre.state_dict(include_factors=bool(arg))
                        out['sd_layers'] = sorted(sd.get('layers', {}).keys()) \
                            if 'layers' in sd else None
                        out['sd'] = {
                            n: {k: (None if t is None else t.clone())
                                for k, t in d.items()}
                            for n, d in sd.get('layers', {}).items()}
                        buf = io.BytesIO()
                        torch.save(sd, buf)
                        buf.seek(0)
                        gr.ckpt = torch.load(buf, weights_only=False)
                    elif act == 'load':
                        if cfg.gpt.get('ckpt_dir'):
                            # a restart separates save from load
                            with simdist.owner('driver'):
                                dist.barrier()
                        cur = {n: p.grad for n, p in gr.model.named_parameters()}
                        gr.build_model()
                        for n, p in gr.model.named_parameters():
                            if cur.get(n) is not None:
                                p.grad = cur[n].detach().clone()
                        gr.pre = gr.build_pre()
                        import copy
                        gr.pre.load_state_dict(copy.deepcopy(gr.ckpt),
                                               compute_inverses=bool(arg))
                    elif act == 'mem':
                        out['mem'] = dict(gr.pre.memory_usage())
                    else:
                        raise ValueError(act)
            except simdist.SimStall:
                raise
            except Exception as e:  # noqa: BLE001
                out['raised'] = e
                recs[r].append(out)
                raise
            out['lin'] = list(ll.calls)
            pre = gr.pre
            out['steps'] = pre.steps
            a = pre._assignment
            out['facts'] = {}
            for name, layer in pre._layers.values():
                out['facts'][name] = {
                    'A': peek(layer, 'a_factor'), 'G': peek(layer, 'g_factor'),
                    'inv': a.inv_worker(name, 'A'),
                    'fw': a.factor_worker(name, 'A'),
                    'hold': kaisa.second_order_held(layer)}
            recs[r].append(out)

    world = simdist.World(W, policy or simdist.RandomPolicy(seed))
    world.run(body)
    errs = [None if rs.error is None else
            f'{type(rs.error).__name__}: {rs.error}' for rs in world.ranks]
    return {'recs': recs, 'caps': caps, 'world': world, 'errors': errs}


def build_interp(cfg: kaisa.Config, seed: int, caps: dict,
                 stage: int | None = None) -> Interp:
    """stage: interpret only the layers of that pipeline stage (every stage
    is an independent K-FAC instance as far as values are concerned)."""
    g = cfg.gpt
    D, M = g['D'], g['M']
    fp = full_params(seed, g)
    icfg = kaisa.Config(**{**cfg.to_json(), 'method': 'eigen',
                           'prediv': False})
    allnames = names_of(g)
    if stage is not None:
        allnames = {k: v for k, v in allnames.items()
                    if k in stage_layout(g, stage)}
    full_layers = make_full_layers(fp, g)
    interp = Interp(icfg, {n: m for n, m in full_layers.items()
                           if n in allnames.values()})
    pids = sorted({k[0] for k in caps})
    for pid in pids:
        ent: dict[str, dict[str, list]] = {}
        for key, lname in allnames.items():
            xs, gs = [], []
            for d in range(D):
                if (pid, key, 'x', d, 0) not in caps:
                    continue
                if kind_of(key) == 'col':
                    xs.append(caps[(pid, key, 'x', d, 0)])
                    if (pid, key, 'g', d, 0) in caps:
                        gs.append(torch.cat(
                            [caps[(pid, key, 'g', d, m)] for m in range(M)], -1))
                else:
                    xs.append(torch.cat(
                        [caps[(pid, key, 'x', d, m)] for m in range(M)], -1))
                    if (pid, key, 'g', d, 0) in caps:
                        gs.append(caps[(pid, key, 'g', d, 0)])
            ent[lname] = {'x': xs, 'g': gs}
        interp.captures[pid] = ent
    return interp


def compare(cfg: kaisa.Config, hist: list[dict[str, Any]],
            ex: dict[str, Any], seed: int) -> dict[str, Any]:
    g = cfg.gpt
    D, M, P = g['D'], g['M'], g.get('P', 1)
    W = P * D * M
    mism: list[dict[str, Any]] = []
    stats = {'steps': 0, 'max_grad_err': 0.0, 'max_factor_err': 0.0,
             'nu_active': 0, 'saves': 0, 'loads': 0}
    world = ex['world']

    def add(cat: str, i: int, msg: str) -> None:
        mism.append({'cat': cat, 'at': i,
                     'act': hist[i]['act'] if 0 <= i < len(hist) else 'run',
                     'msg': msg})

    for m in world.monitors:
        if m['kind'] in ('inflight_write',):
            continue
        ctx = m.get('ctx') if isinstance(m.get('ctx'), dict) else {}
        add('comm', ctx.get('n', -1) if ctx else -1,
            f'{m["kind"]}: {str(m)[:250]}')
    errs = [e for e in ex['errors'] if e and not e.startswith('SimStall')]
    if errs:
        n = min(len(ex['recs'][r]) for r in range(W))
        add('raise', max(n - 1, 0), f'rank error: {errs[0][:250]}')
        return {'mismatches': mism, 'stats': stats}
    if any(len(ex['recs'][r]) < len(hist) for r in range(W)):
        add('raise', 0, 'some rank did not finish')
        return {'mismatches': mism, 'stats': stats}
    NAMES_ = names_of(g)
    # with several pipeline stages the clip factor of C07 is ONE scalar for
    # the whole model: sum the stages' inner products first
    vg_total: dict[int, float] = {}
    if P > 1:
        for stage in range(P):
            base = stage * D * M
            it0 = build_interp(cfg, seed, ex['caps'], stage)
            snames = [(k, v) for k, v in names_of(g).items()
                      if k in stage_layout(g, stage)]
            for i, rec in enumerate(hist):
                if rec['act'] != 'step' or not rec['x']['grad']['nu']['on']:
                    continue
                o = [ex['recs'][r][i] for r in range(base, base + M)]
                raw = {}
                for key, lname in snames:
                    for pn in ('weight', 'bias'):
                        k = f'{key}.{pn}'
                        if k in o[0]['pre_grads']:
                            raw[f'{lname}.{pn}'] = assemble(
                                k, [o[m]['pre_grads'][k] for m in range(M)])
                _, inf = it0.grads(rec['x']['grad'], raw)
                vg_total[i] = vg_total.get(i, 0.0) + inf.get('vg', 0.0)
    for stage in range(P):
      base = stage * D * M
      interp = build_interp(cfg, seed, ex['caps'], stage if P > 1 else None)
      names = [(k, v) for k, v in names_of(g).items()
               if k in stage_layout(g, stage)]
      for i, rec in enumerate(hist):
        act, x, obs = rec['act'], rec['x'], rec['obs']
        allouts = [ex['recs'][r][i] for r in range(W)]
        outs = allouts[base:base + D * M]
        if any(o['steps'] != obs['steps'] for o in outs):
            add('steps', i, f'steps {[o["steps"] for o in outs]} spec {obs["steps"]}')
        # factors on the inverse worker = factors of the unsharded layer
        for key, lname in names:
            invw = outs[0]['facts'][lname]['inv']
            for kind, fk in (('A', 'aFac'), ('G', 'gFac')):
                got = allouts[invw]['facts'][lname][kind]
                want = interp.factor(obs[fk], lname, kind)
                if isinstance(got, str):
                    continue
                if want is None or got is None:
                    if (want is None) != (got is None) and act in ('step',):
                        add('factor', i, f'{lname}.{kind} on inverse worker '
                            f'{invw}: presence differs')
                    continue
                e = rel(got, want)
                stats['max_factor_err'] = max(stats['max_factor_err'], e)
                if act == 'step' and e > TOL_FACTOR:
                    add('factor', i, f'{lname}.{kind} on inverse worker {invw}: '
                                     f'rel err {e:.2e} vs unsharded factor')
        if act == 'step':
            stats['steps'] += int(stage == 0)
            # assemble full gradients per data-parallel replica
            fulls, raws = [], []
            for d in range(D):
                full, raw = {}, {}
                for key, lname in names:
                    for pn in ('weight', 'bias'):
                        k = f'{key}.{pn}'
                        if k not in outs[d * M]['grads']:
                            continue
                        full[f'{lname}.{pn}'] = assemble(
                            k, [outs[d * M + m]['grads'][k] for m in range(M)])
                        raw[f'{lname}.{pn}'] = assemble(
                            k, [outs[d * M + m]['pre_grads'][k] for m in range(M)])
                        if kind_of(key) == 'row' and pn == 'bias':
                            for m in range(1, M):
                                if not torch.equal(outs[d * M + m]['grads'][k],
                                                   outs[d * M]['grads'][k]):
                                    add('replica', i, f'replicated {k} differs '
                                        f'across model-parallel peers (d={d})')
                fulls.append(full)
                raws.append(raw)
            for d in range(1, D):
                for k in fulls[0]:
                    if not torch.equal(fulls[d][k], fulls[0][k]):
                        add('replica', i, f'{k} differs across data-parallel '
                                          f'replicas 0 and {d}')
                        break
            want, info = interp.grads(x['grad'], raws[0])
            nu_stage = info['nu']
            nu_ref = nu_stage
            if P > 1 and i in vg_total:
                import math
                tot = vg_total[i]
                nu_ref = 1.0 if tot == 0.0 else min(
                    1.0, math.sqrt(info['kl'] / abs(tot)))
            if nu_ref < 1.0:
                stats['nu_active'] += int(stage == 0)
            tol = TOL_GRAD * max(1.0, info['cond'] / 50)
            for k, wv in want.items():
                ref = wv * (nu_ref / nu_stage)
                e = rel(fulls[0][k], ref)
                stats['max_grad_err'] = max(stats['max_grad_err'], e / tol)
                if e > tol:
                    if nu_ref != nu_stage and rel(fulls[0][k], wv) <= tol:
                        # exactly the per-stage clip factor: one scalar per
                        # pipeline stage instead of one for the whole model
                        add('pipeline_clip', i,
                            f'{k}: stage {stage} applies its own clip factor '
                            f'{nu_stage:.4g}; the factor of the whole model '
                            f'is {nu_ref:.4g}')
                    else:
                        add('grad', i, f'{k}: assembled shards differ from '
                            f'the unsharded layer\'s gradient: rel {e:.3e} '
                            f'(nu={nu_ref:.4g})')
        elif act == 'save' and hist[i]['arg'] and stage == 0:
            stats['saves'] += 1
            # every rank of EVERY stage holds the factors of all layers of
            # the whole model, as held by each layer's inverse worker
            owner = {}
            for r2 in range(W):
                for ln2, f2 in allouts[r2]['facts'].items():
                    owner.setdefault(ln2, f2['inv'])
            for r in range(W):
                o = allouts[r]
                if cfg.gpt.get('ckpt_dir'):
                    continue
                if o['sd_layers'] != sorted(NAMES_.values()):
                    add('save', i, f'rank {r}: state has layers '
                                   f'{o["sd_layers"]}')
                    continue
                for lname in NAMES_.values():
                    invw = owner[lname]
                    for kind in ('A', 'G'):
                        held = allouts[invw]['facts'][lname][kind]
                        got = o['sd'][lname][kind]
                        if isinstance(held, str) or held is None or got is None \
                                or not torch.equal(got, held):
                            add('save', i, f'rank {r}: saved {lname}.{kind} is '
                                f'not the factor held by inverse worker {invw}')
        elif act == 'load':
            stats['loads'] += int(stage == 0)
            for lname in [v for _, v in names]:
                for r in range(base, base + D * M):
                    f = allouts[r]['facts'][lname]
                    should = x['hasInv'] and f['inv'] == r
                    if should and not f['hold']:
                        add('load', i, f'{lname}: no second-order data on '
                                       f'inverse worker {r} after load')
                    if f['fw'] == r and ex['recs'][r][i]['facts'][lname]['A'] is None \
                            and obs['aFac']['has'] and f['inv'] == r:
                        add('load', i, f'{lname}: factors not restored on {r}')
    return {'mismatches': mism, 'stats': stats}


def replay(cfg: kaisa.Config, hist: list[dict[str, Any]], seed: int,
           policy: simdist.Policy | None = None) -> dict[str, Any]:
    torch.set_num_threads(1)
    ex = execute(cfg, hist, seed, policy)
    out = compare(cfg, hist, ex, seed)
    out['events'] = len(ex['world'].events)
    out['programs'] = ex['world'].programs()
    out['groups'] = dict(ex['world'].groups)
    W = cfg.gpt['D'] * cfg.gpt['M'] * cfg.gpt.get('P', 1)
    out['step_grads'] = {r: [o['grads'] for o in ex['recs'][r] if 'grads' in o]
                         for r in range(W)}
    # case record for spec/GptDist.tla (only for executions that completed)
    out['kcase'] = None
    if not any(ex['errors']) and all(
            len(ex['recs'][r]) == len(hist) for r in range(W)):
        from harness import gptdist
        try:
            out['kcase'] = gptdist.build_case(cfg, hist, ex)
        except Exception as e:  # noqa: BLE001
            out['kcase_error'] = f'{type(e).__name__}: {e}'[:200]
    return out


def craft_opposite_sign_grads(cfg: kaisa.Config, hist: list[dict[str, Any]],
                              ex: dict[str, Any], seed: int,
                              ) -> dict[int, dict[str, torch.Tensor]]:
    """From a first execution (factors do not depend on the gradients handed
    to step(): the harness never updates the weights) search, for every step
    with existing factors, a full gradient D whose preconditioned image V has
    a NEGATIVE inner product <V_s, D_s> on one model-parallel shard s (the
    total <V, D> is always positive).  Bias-free single-layer models only."""
    g = cfg.gpt
    M = g['M']
    lay = layout(g)
    if len(lay) != 1 or M < 2:
        return {}
    (key, (kind, nin, nout, lname)), = lay.items()
    if g.get('bias_col' if kind == 'col' else 'bias_row', True):
        return {}
    gen = torch.Generator().manual_seed(991 + seed)
    out: dict[int, dict[str, torch.Tensor]] = {}
    recs = ex['recs']
    for i, rec in enumerate(hist):
        if rec['act'] != 'step' or len(recs[0]) <= i:
            continue
        invw = recs[0][i]['facts'][lname]['inv']
        A = recs[invw][i]['facts'][lname]['A']
        G = recs[invw][i]['facts'][lname]['G']
        if not isinstance(A, torch.Tensor) or not isinstance(G, torch.Tensor):
            continue
        A, G = A.double(), G.double()
        lam = 0.01
        da, qa = torch.linalg.eigh((A + A.t()) / 2)
        dg, qg = torch.linalg.eigh((G + G.t()) / 2)
        best, best_d = 0.0, None
        for _ in range(1500):
            D = torch.randn(nout, nin, generator=gen).double()
            D = D * torch.exp(2 * torch.randn(nout, 1, generator=gen).double())
            D = D * torch.exp(2 * torch.randn(1, nin, generator=gen).double())
            V = qg @ ((qg.t() @ D @ qa) / (torch.outer(dg, da) + lam)) @ qa.t()
            P = V * D
            parts = [c.sum().item() for c in
                     P.chunk(M, 0 if kind == 'col' else 1)]
            tot = sum(parts)
            score = min(parts) / max(abs(tot), 1e-30)
            if score < best:
                best, best_d = score, D
        if best_d is not None and best < -0.05:
            out[i] = {f'{key}.weight': best_d.float()}
    return out
