----------------------------- MODULE GptAssign -----------------------------
(***************************************************************************)
(* GPT-NeoX work assignment over a pipe x data x model topology            *)
(* (kfac/gpt_neox/assignment.py).  Ranks are numbered row-major over       *)
(* (pipe, data, model).  Every pipeline stage owns its own layers; all     *)
(* ranks of a stage assign that stage's layers with the same greedy.       *)
(*                                                                         *)
(* work[p] : sequence of [name, c] (summed cost of the layer's factors)    *)
(***************************************************************************)
EXTENDS Naturals, Integers, Sequences, FiniteSets, TLC, Json

\* BEGIN-CONSTANTS
CONSTANTS
    MaxP, MaxD, MaxM, MaxWorld,  \* topology bounds
    MaxL,                        \* layers per stage
    Costs,
    NGMode       \* "own_stage": a rank creates only its own stage's peer
                 \*   group (what the pinned code did);
                 \* "all_stages": every rank creates every stage's group in
                 \*   stage order (groups are world-level collectives)
\* END-CONSTANTS

VARIABLES topo, work
vars == <<topo, work>>

W(t) == t.P * t.D * t.M
Pipe(t, r) == r \div (t.D * t.M)
Data(t, r) == (r \div t.M) % t.D
Model(t, r) == r % t.M
Ranks(t) == 0..(W(t) - 1)
ModelGroup(t, r) == {q \in Ranks(t) : Pipe(t, q) = Pipe(t, r) /\ Data(t, q) = Data(t, r)}
DataGroup(t, r) == {q \in Ranks(t) : Pipe(t, q) = Pipe(t, r) /\ Model(t, q) = Model(t, r)}
StagePeers(t, p) == {q \in Ranks(t) : Pipe(t, q) = p}

NameRank(n) == CASE n = "l1" -> 1 [] n = "l2" -> 2 [] n = "l3" -> 3 [] OTHER -> 0
\* sorted by (cost, name) descending
KeyGE(a, b) == a.c > b.c \/ (a.c = b.c /\ NameRank(a.name) >= NameRank(b.name))
RECURSIVE Ins(_, _)
Ins(x, s) == IF s = <<>> THEN <<x>>
             ELSE IF KeyGE(Head(s), x) THEN <<Head(s)>> \o Ins(x, Tail(s))
             ELSE <<x>> \o s
RECURSIVE SortDesc(_)
SortDesc(s) == IF s = <<>> THEN <<>> ELSE Ins(Head(s), SortDesc(Tail(s)))

MinOfSet(S) == CHOOSE m \in S : \A x \in S : m <= x
\* least loaded stage peer, first (lowest rank) on ties
RECURSIVE Place(_, _, _)
Place(layers, loads, asg) ==
    IF layers = <<>> THEN asg
    ELSE LET mn == MinOfSet({loads[q] : q \in DOMAIN loads})
             w == MinOfSet({q \in DOMAIN loads : loads[q] = mn})
         IN Place(Tail(layers), [loads EXCEPT ![w] = @ + Head(layers).c],
                  asg \cup {<<Head(layers).name, w>>})
StageAssign(t, p) ==
    Place(SortDesc(work[p + 1]), [q \in StagePeers(t, p) |-> 0], {})
InvWorker(t, p, l) == (CHOOSE x \in StageAssign(t, p) : x[1] = l)[2]

FactorWorkerSet(t, r, l) ==
    ModelGroup(t, r) \cap DataGroup(t, InvWorker(t, Pipe(t, r), l))
SrcSet(t, r, l) ==
    DataGroup(t, r) \cap ModelGroup(t, InvWorker(t, Pipe(t, r), l))
IsGradWorker(t, r, l) == InvWorker(t, Pipe(t, r), l) \in ModelGroup(t, r)

\* the sequence of new_group calls rank r makes while constructing
NeedsPeerGroup(t) == t.D > 1 /\ t.M > 1
NewGroups(t, r) ==
    IF ~NeedsPeerGroup(t) THEN <<>>
    ELSE IF NGMode = "own_stage" THEN <<StagePeers(t, Pipe(t, r))>>
    ELSE [p \in 1..t.P |-> StagePeers(t, p - 1)]

---------------------------------------------------------------------------
Init ==
    /\ \E P \in 1..MaxP : \E D \in 1..MaxD : \E M \in 1..MaxM :
          /\ P * D * M <= MaxWorld
          /\ topo = [P |-> P, D |-> D, M |-> M]
          /\ work = [p \in 1..P |-> <<>>]
LayerNames == <<"l1", "l2", "l3">>
AddLayer ==
    \E p \in 1..topo.P : \E c \in Costs :
        /\ Len(work[p]) < MaxL
        /\ \A q \in 1..(p - 1) : Len(work[q]) >= 1      \* fill stages in order
        /\ work' = [work EXCEPT ![p] = Append(@, [name |-> LayerNames[Len(@) + 1], c |-> c])]
        /\ UNCHANGED topo
Next == AddLayer
Spec == Init /\ [][Next]_vars

(* properties (C12) *)
Layers(p) == {work[p + 1][i].name : i \in DOMAIN work[p + 1]}
OneWorkerPerLayer ==
    \A p \in 0..(topo.P - 1) :
        /\ {x[1] : x \in StageAssign(topo, p)} = Layers(p)
        /\ Cardinality(StageAssign(topo, p)) = Cardinality(Layers(p))
        /\ \A x \in StageAssign(topo, p) : x[2] \in StagePeers(topo, p)
ViewsConsistent ==
    \A r \in Ranks(topo) : \A l \in Layers(Pipe(topo, r)) :
        LET iw == InvWorker(topo, Pipe(topo, r), l) IN
        /\ Cardinality(FactorWorkerSet(topo, r, l)) = 1
        /\ FactorWorkerSet(topo, r, l) \subseteq ModelGroup(topo, r)
        /\ FactorWorkerSet(topo, r, l) \subseteq DataGroup(topo, iw)
        /\ Cardinality(SrcSet(topo, r, l)) = 1
        /\ SrcSet(topo, r, l) \subseteq DataGroup(topo, r)
        /\ \A s \in SrcSet(topo, r, l) : Model(topo, s) = Model(topo, r)
        /\ IsGradWorker(topo, r, l) <=> (r \in ModelGroup(topo, iw))
        /\ \A s \in SrcSet(topo, r, l) : IsGradWorker(topo, s, l)
        /\ (IsGradWorker(topo, r, l) => SrcSet(topo, r, l) = {r})
\* greedy: loads of stage peers never differ by more than the largest layer
Load(t, p, q) ==
    LET S == {i \in DOMAIN work[p + 1] :
                 InvWorker(t, p, work[p + 1][i].name) = q}
        RECURSIVE Sum(_)
        Sum(T) == IF T = {} THEN 0
                  ELSE LET i == CHOOSE j \in T : TRUE IN work[p + 1][i].c + Sum(T \ {i})
    IN Sum(S)
Balanced ==
    \A p \in 0..(topo.P - 1) : \A q1, q2 \in StagePeers(topo, p) :
        \A mx \in {0} \cup {work[p + 1][i].c : i \in DOMAIN work[p + 1]} :
            (\A i \in DOMAIN work[p + 1] : work[p + 1][i].c <= mx)
                => Load(topo, p, q1) - Load(topo, p, q2) <= mx
\* any process group is created by all ranks in the same order
SameNewGroupSeq ==
    \A r1, r2 \in Ranks(topo) : NewGroups(topo, r1) = NewGroups(topo, r2)

Emit ==
    PrintT(ToJson([topo |-> topo, work |-> work,
        inv |-> [p \in 1..topo.P |-> [i \in DOMAIN work[p] |->
                    InvWorker(topo, p - 1, work[p][i].name)]],
        fw |-> [r \in 1..W(topo) |-> [i \in DOMAIN work[Pipe(topo, r - 1) + 1] |->
                    CHOOSE x \in FactorWorkerSet(topo, r - 1, work[Pipe(topo, r - 1) + 1][i].name) : TRUE]],
        src |-> [r \in 1..W(topo) |-> [i \in DOMAIN work[Pipe(topo, r - 1) + 1] |->
                    CHOOSE x \in SrcSet(topo, r - 1, work[Pipe(topo, r - 1) + 1][i].name) : TRUE]],
        gw |-> [r \in 1..W(topo) |-> [i \in DOMAIN work[Pipe(topo, r - 1) + 1] |->
                    IsGradWorker(topo, r - 1, work[Pipe(topo, r - 1) + 1][i].name)]],
        ng |-> [r \in 1..W(topo) |-> NewGroups(topo, r - 1)]]))
=============================================================================
