------------------------------ MODULE KfacRef ------------------------------
(***************************************************************************)
(* Sequential reference machine of K-FAC preconditioning                   *)
(* (kfac/base_preconditioner.py + kfac/layers/base.py + kfac/scheduler.py) *)
(* over SYMBOLIC values.  One action per public call (the linearisation    *)
(* point of a sequential library is the call's return).                    *)
(*                                                                         *)
(* All registered layers of a sequential machine see the same sequence of  *)
(* hook calls, so one representative layer is modelled; the conformance    *)
(* replay (harness/refreplay.py) instantiates every term for every real    *)
(* layer.                                                                  *)
(*                                                                         *)
(* Values are terms, interpreted in float64 by harness/terms.py:           *)
(*   factor  = [has, ups]: identity followed by EMA updates                *)
(*             ups[i] = [alpha |-> HPV, mbs |-> <<pass ids>>]              *)
(*   inverse = [has, A, G, damp]: what was decomposed with which damping   *)
(*   HPV     = hyper-parameter value descriptor: a constant with the log   *)
(*             of scheduler arguments applied to it, or a function of the  *)
(*             step at which it was evaluated                              *)
(*   grad    = [inv, dampUse, nu, raw]                                     *)
(* The model follows what the code does, including: the accumulation count *)
(* is only reset by the next save; reset_batch does not clear the          *)
(* micro-step counter; hooks are gated on steps % F at the CURRENT step;   *)
(* damping is baked at refresh time for inverse/prediv but read at use     *)
(* time for plain eigen (both recorded in the term: inv.damp, dampUse).    *)
(***************************************************************************)
EXTENDS Naturals, Integers, Sequences, FiniteSets, TLC, Json

\* BEGIN-CONSTANTS
CONSTANTS
    InHook,       \* BOOLEAN: update_factors_in_hook
    Accum,        \* accumulation_steps >= 1
    FSpec, ISpec, \* [kind |-> "const", v |-> n] or [kind |-> "fn", name |-> s]
    FloatKind,    \* [damping, factor_decay, kl_clip, lr -> "const" | "fn" | "none"]
    Sched,        \* set of scheduled parameter names
    SchedFn,      \* [param -> factor function name]
    Alphabet,     \* subset of action names
    Micro,        \* set of micro-batch counts a Train may use
    SchedArgs,    \* set of explicit scheduler step arguments (-1 = none given)
    SaveArgs,     \* subset of BOOLEAN: include_factors values a Save may use
    LoadArgs,     \* subset of BOOLEAN: compute_inverses values a Load may use
    Script,       \* <<>> or a sequence of [act, arg]: generate exactly this
                  \* history (directed long behaviours)
    Steps0,       \* step count the history starts from (a run resumed from a
                  \* state that carries only the counters: long-running jobs
                  \* have step counts far beyond what a history can reach)
    IntTable,     \* [name -> sequence of values]: interval functions given by
                  \* their values at steps 0, 1, 2, ... (the last value
                  \* continues); used for traces of arbitrary drivers
    Strict,       \* BOOLEAN: iteration discipline of distributed training --
                  \* passes only when no gradients are pending, everything
                  \* else (save, load, memory query, scheduler, reset) only at
                  \* step boundaries
    MaxDepth
\* END-CONSTANTS

FloatParams == {"damping", "factor_decay", "kl_clip", "lr"}

(* finite families of callables; the harness has the same tables *)
IntervalFn(name, s) ==
    CASE name = "int_1_2" -> IF s < 2 THEN 1 ELSE 2
      [] name = "int_2_1" -> IF s < 2 THEN 2 ELSE 1
      [] name = "int_1_3" -> IF s < 1 THEN 1 ELSE 3
      [] OTHER -> LET tb == IntTable[name]
                  IN tb[IF s + 1 <= Len(tb) THEN s + 1 ELSE Len(tb)]
\* multiplicative factors as rationals <<num, den>> (dyadic: exact in floats)
FactorFn(name, s) ==
    CASE name = "dbl" -> <<2, 1>>
      [] name = "half" -> <<1, 2>>
      [] name = "dbl_after1" -> IF s >= 1 THEN <<2, 1>> ELSE <<1, 1>>
      [] name = "step_pow" -> IF s % 2 = 0 THEN <<1, 1>> ELSE <<1, 2>>

VARIABLES
    steps,
    fv, iv,      \* interval parameters: same shape as FSpec / ISpec
    fl,          \* [FloatParams -> [kind, log]]  log = scheduler args applied
    mini,        \* micro-step counter (forward passes since the last step)
    aAcc, gAcc,  \* pass ids accumulated in the A / G batch buffers
    aFac, gFac,  \* factor terms
    inv,         \* second-order data term
    raw,         \* pass ids whose backward produced the current gradients
    pass,        \* number of forward passes so far
    ckpt,        \* last saved state
    raised,      \* the last call raised (terminal)
    h            \* history of [act, arg, exp] (generator configs only)

kvars == <<steps, fv, iv, fl, mini, aAcc, gAcc, aFac, gFac, inv>>
vars == <<steps, fv, iv, fl, mini, aAcc, gAcc, aFac, gFac, inv, raw, pass,
          ckpt, raised, h>>
view == <<steps, fv, iv, fl, mini, aAcc, gAcc, aFac, gFac, inv, raw, pass,
          ckpt, raised>>

NoFac == [has |-> FALSE, ups |-> <<>>]
NoInv == [has |-> FALSE, A |-> NoFac, G |-> NoFac,
          damp |-> [p |-> "damping", kind |-> "none", log |-> <<>>, at |-> 0]]
NoCkpt == [has |-> FALSE, steps |-> 0, fv |-> FSpec, iv |-> ISpec,
           fl |-> [p \in FloatParams |-> [kind |-> "none", log |-> <<>>]],
           inc |-> FALSE, aFac |-> NoFac, gFac |-> NoFac]

IntVal(spec, s) == IF spec.kind = "const" THEN spec.v ELSE IntervalFn(spec.name, s)
FVal == IntVal(fv, steps)
IVal == IntVal(iv, steps)

\* descriptor of the value of float parameter p evaluated NOW
HPV(p) ==
    IF fl[p].kind = "fn"
    THEN [p |-> p, kind |-> "fn", log |-> <<>>, at |-> steps]
    ELSE [p |-> p, kind |-> fl[p].kind, log |-> fl[p].log, at |-> 0]

Init ==
    /\ steps = Steps0
    /\ fv = FSpec /\ iv = ISpec
    /\ fl = [p \in FloatParams |-> [kind |-> FloatKind[p], log |-> <<>>]]
    /\ mini = 0 /\ aAcc = <<>> /\ gAcc = <<>>
    /\ aFac = NoFac /\ gFac = NoFac /\ inv = NoInv
    /\ raw = <<>> /\ pass = 0
    /\ ckpt = NoCkpt
    /\ raised = FALSE
    /\ h = <<>>

---------------------------------------------------------------------------
(* update_{a,g}_factor: nothing accumulated -> no change; first update starts
   from the identity (has = FALSE, ups = <<>> denotes "no factor yet") *)
Upd(fac, acc) ==
    IF acc = <<>> THEN fac
    ELSE [has |-> TRUE,
          ups |-> Append(fac.ups, [alpha |-> HPV("factor_decay"), mbs |-> acc])]

\* hook state threaded through the passes of one Train call
HS == [mini |-> mini, aAcc |-> aAcc, gAcc |-> gAcc, aFac |-> aFac,
       gFac |-> gFac, pass |-> pass, raw |-> <<>>]

Fwd(s) ==       \* forward pre-hook in train mode (_save_input)
    LET p == s.pass + 1 IN
    IF steps % FVal = 0
    THEN LET acc == Append(s.aAcc, p)
             m == s.mini + 1
         IN IF InHook /\ m % Accum = 0
            THEN [s EXCEPT !.pass = p, !.mini = m, !.aAcc = <<>>,
                           !.aFac = Upd(s.aFac, acc)]
            ELSE [s EXCEPT !.pass = p, !.mini = m, !.aAcc = acc]
    ELSE [s EXCEPT !.pass = p]

Bwd(s) ==       \* backward hook in train mode (_save_grad_output)
    LET p == s.pass
        s1 == [s EXCEPT !.raw = Append(@, p)] IN
    IF steps % FVal = 0
    THEN LET acc == Append(s.gAcc, p) IN
         IF InHook /\ s.mini % Accum = 0
         THEN [s1 EXCEPT !.gAcc = <<>>, !.gFac = Upd(s.gFac, acc)]
         ELSE [s1 EXCEPT !.gAcc = acc]
    ELSE s1

RECURSIVE Passes(_, _)
Passes(s, n) == IF n = 0 THEN s ELSE Passes(Bwd(Fwd(s)), n - 1)

SetHS(s) ==
    /\ mini' = s.mini /\ aAcc' = s.aAcc /\ gAcc' = s.gAcc
    /\ aFac' = s.aFac /\ gFac' = s.gFac /\ pass' = s.pass /\ raw' = s.raw

\* observable (projected) state after an action; compared with the code
Obs(st, f, i, flv, af, gf) ==
    [steps |-> st, F |-> IntVal(f, st), I |-> IntVal(i, st),
     hp |-> [p \in FloatParams |->
               IF flv[p].kind = "fn"
               THEN [p |-> p, kind |-> "fn", log |-> <<>>, at |-> st]
               ELSE [p |-> p, kind |-> flv[p].kind, log |-> flv[p].log, at |-> 0]],
     aFac |-> af, gFac |-> gf]

ScriptOK(act, arg) ==
    \/ Script = <<>>
    \/ /\ Len(h) < Len(Script)
       /\ Script[Len(h) + 1].act = act /\ Script[Len(h) + 1].arg = arg
Rec(act, arg, extra) ==
    /\ ScriptOK(act, arg)
    /\ h' = Append(h, [act |-> act, arg |-> arg, x |-> extra,
                       obs |-> Obs(steps', fv', iv', fl', aFac', gFac')])

Live == ~raised /\ Len(h) < MaxDepth
Boundary == Strict => raw = <<>>      \* a step boundary (no pending gradients)

Train(n) ==
    /\ Live /\ "Train" \in Alphabet /\ Boundary
    /\ Strict => n <= Accum
    /\ SetHS(Passes(HS, n))
    /\ UNCHANGED <<steps, fv, iv, fl, inv, ckpt, raised>>
    /\ Rec("train", n, [none |-> TRUE])

FwdOnly ==
    /\ Live /\ "FwdOnly" \in Alphabet /\ ~Strict
    /\ SetHS(Fwd(HS))
    /\ UNCHANGED <<steps, fv, iv, fl, inv, ckpt, raised>>
    /\ Rec("fwdonly", 0, [none |-> TRUE])

EvalPass ==     \* hooks return early in eval mode; gradients are produced
    /\ Live /\ "Eval" \in Alphabet /\ Boundary
    /\ pass' = pass + 1
    /\ raw' = IF Strict THEN <<>> ELSE <<pass + 1>>   \* strict: a validation
                  \* pass between iterations, its gradients are discarded
    /\ UNCHANGED <<kvars, ckpt, raised>>
    /\ Rec("eval", 0, [none |-> TRUE])

ResetBatch ==   \* the micro-step counter is NOT cleared (as in the code)
    /\ Live /\ "Reset" \in Alphabet /\ Boundary
    /\ aAcc' = <<>> /\ gAcc' = <<>>
    /\ UNCHANGED <<steps, fv, iv, fl, mini, aFac, gFac, inv, raw, pass, ckpt,
                   raised>>
    /\ Rec("reset", 0, [none |-> TRUE])

\* reset_batch() between the backward pass and step() (the statistics of this
\* iteration are dropped; step() then runs a factor-update step without a new
\* batch: the running averages stay, and are still averaged over the world)
ResetMid ==
    /\ Live /\ "ResetMid" \in Alphabet /\ raw # <<>>
    /\ aAcc' = <<>> /\ gAcc' = <<>>
    /\ UNCHANGED <<steps, fv, iv, fl, mini, aFac, gFac, inv, raw, pass, ckpt,
                   raised>>
    /\ Rec("reset", 0, [none |-> TRUE])

(* ---- step() ---------------------------------------------------------- *)
FactorStep == ~InHook /\ steps % FVal = 0
aF1 == IF FactorStep THEN Upd(aFac, aAcc) ELSE aFac
gF1 == IF FactorStep THEN Upd(gFac, gAcc) ELSE gFac
Refresh == steps % IVal = 0
inv1 == IF Refresh
        THEN [has |-> TRUE, A |-> aF1, G |-> gF1, damp |-> HPV("damping")]
        ELSE inv
StepFails ==
    \/ (FactorStep /\ (~aF1.has \/ ~gF1.has))       \* cannot reduce None
    \/ (Refresh /\ (~aF1.has \/ ~gF1.has))          \* cannot decompose None
    \/ ~inv1.has                                    \* nothing to precondition with
Nu == IF FloatKind["kl_clip"] = "none" THEN [on |-> FALSE]
      ELSE [on |-> TRUE, kl |-> HPV("kl_clip"), lr |-> HPV("lr")]

\* StepBody / StepRaisesBody: step() itself; the generator (StepOK /
\* StepRaises) adds the usage assumption that gradients exist, which a trace
\* of a real driver need not state (spec/KfacTrace.tla)
StepBody ==
    /\ Live /\ "Step" \in Alphabet
    /\ ~StepFails
    /\ aFac' = aF1 /\ gFac' = gF1
    /\ aAcc' = IF FactorStep THEN <<>> ELSE aAcc
    /\ gAcc' = IF FactorStep THEN <<>> ELSE gAcc
    /\ inv' = inv1
    /\ steps' = steps + 1
    /\ mini' = 0
    /\ raw' = <<>>
    /\ UNCHANGED <<fv, iv, fl, pass, ckpt, raised>>
    /\ Rec("step", 0,
           [grad |-> [inv |-> inv1, dampUse |-> HPV("damping"), nu |-> Nu,
                      raw |-> raw],
            refresh |-> Refresh, factorStep |-> steps % FVal = 0])
StepOK == raw # <<>> /\ StepBody       \* usage assumption: gradients exist

StepRaisesBody ==
    /\ Live /\ "Step" \in Alphabet
    /\ StepFails
    /\ raised' = TRUE
    /\ UNCHANGED <<steps, fv, iv, fl, mini, aAcc, gAcc, aFac, gFac, inv, raw,
                   pass, ckpt>>
    /\ h' = Append(h, [act |-> "step", arg |-> 0, x |-> [raises |-> TRUE],
                       obs |-> Obs(steps, fv, iv, fl, aFac, gFac)])
StepRaises == raw # <<>> /\ StepRaisesBody

(* ---- LambdaParamScheduler.step(arg) ------------------------------------ *)
Scaled(spec, p, a) ==
    IF p \in Sched
    THEN LET f == FactorFn(SchedFn[p], a) IN
         [spec EXCEPT !.v = (spec.v * f[1]) \div f[2]]     \* int() truncation
    ELSE spec
SchedStep(arg) ==
    /\ Live /\ "Sched" \in Alphabet /\ Sched # {} /\ Boundary
    /\ LET a == IF arg = -1 THEN steps ELSE arg IN
       /\ fv' = Scaled(fv, "factor_update_steps", a)
       /\ iv' = Scaled(iv, "inv_update_steps", a)
       /\ fv'.v > 0 /\ iv'.v > 0      \* usage assumption: intervals stay positive
       /\ fl' = [p \in FloatParams |->
                   IF p \in Sched THEN [fl[p] EXCEPT !.log = Append(@, a)]
                   ELSE fl[p]]
    /\ UNCHANGED <<steps, mini, aAcc, gAcc, aFac, gFac, inv, raw, pass, ckpt,
                   raised>>
    /\ Rec("sched", arg, [none |-> TRUE])

(* ---- state_dict / load_state_dict into a FRESH preconditioner ---------- *)
Save(inc) ==
    /\ Live /\ "Save" \in Alphabet /\ Boundary
    /\ ckpt' = [has |-> TRUE, steps |-> steps, fv |-> fv, iv |-> iv,
                fl |-> fl, inc |-> inc, aFac |-> aFac, gFac |-> gFac]
    /\ UNCHANGED <<kvars, raw, pass, raised>>
    /\ Rec("save", inc, [none |-> TRUE])

Load(comp) ==
    /\ Live /\ "Load" \in Alphabet /\ Boundary
    /\ ckpt.has
    /\ steps' = ckpt.steps
    /\ fv' = IF FSpec.kind = "const" THEN ckpt.fv ELSE FSpec
    /\ iv' = IF ISpec.kind = "const" THEN ckpt.iv ELSE ISpec
    /\ fl' = [p \in FloatParams |->
                IF FloatKind[p] = "const" THEN ckpt.fl[p]
                ELSE [kind |-> FloatKind[p], log |-> <<>>]]
    /\ mini' = 0 /\ aAcc' = <<>> /\ gAcc' = <<>>
    /\ aFac' = IF ckpt.inc THEN ckpt.aFac ELSE NoFac
    /\ gFac' = IF ckpt.inc THEN ckpt.gFac ELSE NoFac
    /\ inv' = IF comp /\ ckpt.inc /\ ckpt.aFac.has /\ ckpt.gFac.has
              THEN [has |-> TRUE, A |-> ckpt.aFac, G |-> ckpt.gFac,
                    damp |-> IF FloatKind["damping"] = "fn"
                             THEN [p |-> "damping", kind |-> "fn", log |-> <<>>,
                                   at |-> ckpt.steps]
                             ELSE [p |-> "damping", kind |-> "const",
                                   log |-> ckpt.fl["damping"].log, at |-> 0]]
              ELSE NoInv
    /\ UNCHANGED <<raw, pass, ckpt, raised>>
    /\ Rec("load", comp, [hasInv |-> inv'.has])

\* load_state_dict into the SAME, used instance (a roll-back): counters,
\* constant hyper-parameters and -- when saved -- factors are overwritten;
\* pending batch statistics and the micro-step counter stay; second-order
\* data stays unless it is recomputed from the restored factors
Rollback(comp) ==
    /\ Live /\ "Rollback" \in Alphabet /\ Boundary
    /\ ckpt.has
    /\ steps' = ckpt.steps
    /\ fv' = IF FSpec.kind = "const" THEN ckpt.fv ELSE FSpec
    /\ iv' = IF ISpec.kind = "const" THEN ckpt.iv ELSE ISpec
    /\ fl' = [p \in FloatParams |->
                IF FloatKind[p] = "const" THEN ckpt.fl[p]
                ELSE [kind |-> FloatKind[p], log |-> <<>>]]
    \* (a factor that is None in the state leaves the live factor alone; the
    \* recomputation uses the factors the instance holds AFTER the restore --
    \* also live ones the state did not carry: a checkpoint taken before the
    \* first factor update, rolled back to after one)
    /\ LET na == IF ckpt.inc /\ ckpt.aFac.has THEN ckpt.aFac ELSE aFac
           ng == IF ckpt.inc /\ ckpt.gFac.has THEN ckpt.gFac ELSE gFac
           rec == comp /\ ckpt.inc /\ na.has /\ ng.has IN
       /\ aFac' = na
       /\ gFac' = ng
       /\ inv' = IF rec
                 THEN [has |-> TRUE, A |-> na, G |-> ng,
                       damp |-> IF FloatKind["damping"] = "fn"
                                THEN [p |-> "damping", kind |-> "fn",
                                      log |-> <<>>, at |-> ckpt.steps]
                                ELSE [p |-> "damping", kind |-> "const",
                                      log |-> ckpt.fl["damping"].log, at |-> 0]]
                 ELSE inv
       /\ Rec("rollback", comp, [hasInv |-> inv'.has, recomputed |-> rec])
    /\ UNCHANGED <<mini, aAcc, gAcc, raw, pass, ckpt, raised>>

MemoryUsage ==
    /\ Live /\ "Mem" \in Alphabet /\ Boundary
    /\ UNCHANGED <<kvars, raw, pass, ckpt, raised>>
    /\ Rec("mem", 0, [none |-> TRUE])

Next ==
    \/ \E n \in Micro : Train(n)
    \/ FwdOnly \/ EvalPass \/ ResetBatch \/ ResetMid
    \/ StepOK \/ StepRaises
    \/ \E a \in SchedArgs : SchedStep(a)
    \/ \E b \in SaveArgs : Save(b)
    \/ \E b \in LoadArgs : Load(b)
    \/ \E b \in LoadArgs : Rollback(b)
    \/ MemoryUsage

Spec == Init /\ [][Next]_vars

---------------------------------------------------------------------------
(* Properties (C04, C05, C09, C10 discrete structure)                        *)

IsStep == steps' = steps + 1 /\ ~(\E b \in BOOLEAN : Load(b))

\* the step count grows by exactly one per step and by nothing else
StepCountsByOne ==
    [][steps' # steps => (steps' = steps + 1 \/ (ckpt.has /\ steps' = ckpt.steps))]_vars

\* factors change only where steps is a multiple of the factor interval
FactorsChangeOnlyOnUpdateSteps ==
    [][(aFac' # aFac \/ gFac' # gFac) =>
          (steps % FVal = 0 \/ (ckpt.has /\ steps' = ckpt.steps /\ aFac' \in {ckpt.aFac, NoFac}))]_vars

\* second-order data is recomputed only on multiples of the inverse interval
InvRefreshOnlyOnMultiples ==
    [][inv' # inv => (steps % IVal = 0 \/ \E b \in BOOLEAN : Load(b))]_vars

\* ... and always on step 0
RefreshOnStepZero ==
    [][(steps = 0 /\ steps' = 1) => (inv'.has /\ inv'.A = aFac' /\ inv'.G = gFac')]_vars
\* (a history that starts at Steps0 > 0 without second-order data can only
\* step on a refresh step: StepFails otherwise)

\* eval-mode passes leave all K-FAC state unchanged
EvalFrame == [][EvalPass => UNCHANGED kvars]_vars

\* memory_usage / save leave K-FAC state unchanged
QueryFrame ==
    [][(MemoryUsage \/ \E b \in BOOLEAN : Save(b)) => UNCHANGED kvars]_vars

\* hyper-parameters given as functions are evaluated at the current step:
\* every descriptor created by a step refers to the pre-state's step count
HPAtCurrentStep ==
    [][(steps' = steps + 1) =>
         /\ (inv' # inv /\ inv'.damp.kind = "fn") => inv'.damp.at = steps
         /\ \A i \in 1..Len(aFac'.ups) :
               (i > Len(aFac.ups) /\ aFac'.ups[i].alpha.kind = "fn")
                   => aFac'.ups[i].alpha.at = steps]_vars

\* checkpoint round trip: steps, constants and factors restored exactly
RoundTrip ==
    [][(\E b \in BOOLEAN : Load(b)) =>
         /\ steps' = ckpt.steps
         /\ ckpt.inc => (aFac' = ckpt.aFac /\ gFac' = ckpt.gFac)
         /\ \A p \in FloatParams : FloatKind[p] = "const" => fl'[p] = ckpt.fl[p]
         /\ mini' = 0]_vars

\* after a successful step the micro-step counter is cleared
MiniCleared == [][steps' = steps + 1 => mini' = 0]_vars

TypeOK ==
    /\ steps \in Nat /\ mini \in Nat /\ pass \in Nat
    /\ raised \in BOOLEAN
    /\ aFac.has \in BOOLEAN /\ gFac.has \in BOOLEAN /\ inv.has \in BOOLEAN

---------------------------------------------------------------------------
(* Generator: print every behaviour when it ends (depth bound or raise)     *)
EmitDone ==
    IF raised \/ Len(h) >= MaxDepth
    THEN PrintT(ToJson(h)) /\ FALSE
    ELSE TRUE
=============================================================================
