------------------------------ MODULE Tracing ------------------------------
(***************************************************************************)
(* kfac/tracing.py: a global table  function name -> sequence of timing    *)
(* samples.  Call(f, dur, outcome) of a traced function appends exactly    *)
(* one sample when the call completes (returns), none when it raises;      *)
(* Get(avg, maxHistory) reports the sum or the mean of the last maxHistory *)
(* samples (all when unset); Clear empties the table.  Two distinct        *)
(* functions may share a name: they share one entry.                       *)
(* Durations are small integers (the harness scripts the clock with dyadic *)
(* values so float sums and means are exact).                              *)
(***************************************************************************)
EXTENDS Naturals, Sequences, FiniteSets, TLC, Json

\* BEGIN-CONSTANTS
CONSTANTS
    Funcs,      \* traced functions: [id, name]
    Durs,       \* set of durations
    Hist,       \* set of max_history values; 0 stands for "unset" (None)
    MaxDepth
\* END-CONSTANTS

VARIABLES table, order, h
vars == <<table, order, h>>
\* table: [name -> Seq(dur)] for names in `order` (insertion order of keys)
Init == table = <<>> /\ order = <<>> /\ h = <<>>

Names == {order[i] : i \in DOMAIN order}
Samples(nm) == table[CHOOSE i \in DOMAIN order : order[i] = nm]
Idx(nm) == CHOOSE i \in DOMAIN order : order[i] = nm

RECURSIVE SumSeq(_)
SumSeq(s) == IF s = <<>> THEN 0 ELSE Head(s) + SumSeq(Tail(s))
LastN(s, k) == IF k = 0 \/ Len(s) <= k THEN s ELSE SubSeq(s, Len(s) - k + 1, Len(s))

Call(f, d, raises) ==
    /\ Len(h) < MaxDepth
    /\ IF raises
       THEN UNCHANGED <<table, order>>
       ELSE IF f.name \in Names
            THEN /\ table' = [table EXCEPT ![Idx(f.name)] = Append(@, d)]
                 /\ order' = order
            ELSE /\ table' = Append(table, <<d>>)
                 /\ order' = Append(order, f.name)
    /\ h' = Append(h, [act |-> "call", f |-> f.id, d |-> d, raises |-> raises,
                       exp |-> <<>>])

\* report: sequence of [name, num, den] (statistic = num / den) in table order
Report(avg, k) ==
    [i \in DOMAIN order |->
        LET s == LastN(table[i], k) IN
        [name |-> order[i], num |-> SumSeq(s),
         den |-> IF avg THEN Len(s) ELSE 1]]

Get(avg, k) ==
    /\ Len(h) < MaxDepth
    /\ UNCHANGED <<table, order>>
    /\ h' = Append(h, [act |-> "get", f |-> 0, d |-> k, raises |-> avg,
                       exp |-> Report(avg, k)])

Clear ==
    /\ Len(h) < MaxDepth /\ order # <<>>
    /\ table' = <<>> /\ order' = <<>>
    /\ h' = Append(h, [act |-> "clear", f |-> 0, d |-> 0, raises |-> FALSE,
                       exp |-> <<>>])

Next ==
    \/ \E f \in Funcs : \E d \in Durs : \E r \in BOOLEAN : Call(f, d, r)
    \/ \E a \in BOOLEAN : \E k \in Hist : Get(a, k)
    \/ Clear
Spec == Init /\ [][Next]_vars
view == <<table, order>>

(* properties *)
OneSamplePerCompletedCall ==
    [][\A i \in DOMAIN order' :
          (i \in DOMAIN order /\ order[i] = order'[i])
              => Len(table'[i]) \in {Len(table[i]), Len(table[i]) + 1}]_vars
TotalGrowsByAtMostOne ==
    LET Tot(t) == SumSeq([i \in DOMAIN t |-> Len(t[i])]) IN
    [][Tot(table') <= Tot(table) + 1]_vars
QueriesDoNotChange ==
    [][(\E a \in BOOLEAN : \E k \in Hist : Get(a, k)) => UNCHANGED <<table, order>>]_vars
NoEmptyEntries == \A i \in DOMAIN table : table[i] # <<>>
UniqueKeys == \A i, j \in DOMAIN order : i # j => order[i] # order[j]

EmitDone ==
    IF Len(h) >= MaxDepth THEN PrintT(ToJson(h)) /\ FALSE ELSE TRUE
=============================================================================
