------------------------------ MODULE Tracing ------------------------------
(***************************************************************************)
(* kfac/tracing.py: a global table  function name -> sequence of timing    *)
(* samples.  A call of a traced function Begins, time passes (Tick), other  *)
(* traced functions -- or the same one, recursively -- may be called        *)
(* inside it, and it Ends by returning or raising.  A completed (returned)  *)
(* call appends exactly one sample, the time between ITS begin and ITS end, *)
(* under the function's name; a call that raises appends nothing.           *)
(* Get(avg, maxHistory) reports the sum or the mean of the last maxHistory  *)
(* samples (all when unset); Clear empties the table (also while calls are  *)
(* in progress).  Two distinct functions may share a name: one entry.       *)
(* Durations are small integers (the harness scripts the clock with dyadic  *)
(* values so float sums and means are exact).                               *)
(***************************************************************************)
EXTENDS Naturals, Sequences, FiniteSets, TLC, Json

\* BEGIN-CONSTANTS
CONSTANTS
    Funcs,      \* traced functions: [id, name]
    Durs,       \* set of tick durations
    Hist,       \* set of max_history values; 0 stands for "unset" (None)
    MaxNest,    \* maximal call nesting depth
    SyncIds,    \* ids of the functions decorated with trace(sync=True): a
                \* world barrier when the call begins and one when it returns
                \* (a call that raises never reaches the second barrier)
    MaxDepth
\* END-CONSTANTS

VARIABLES table, order, stack, now, h, nbar
vars == <<table, order, stack, now, h, nbar>>
\* nbar: number of world barriers this process has entered
\* table: [index -> Seq(dur)] for the names in `order` (insertion order of keys)
\* stack: calls in progress, innermost last: [f (id), name, start]
Init == table = <<>> /\ order = <<>> /\ stack = <<>> /\ now = 0 /\ h = <<>>
        /\ nbar = 0

Names == {order[i] : i \in DOMAIN order}
Idx(nm) == CHOOSE i \in DOMAIN order : order[i] = nm

RECURSIVE SumSeq(_)
SumSeq(s) == IF s = <<>> THEN 0 ELSE Head(s) + SumSeq(Tail(s))
LastN(s, k) == IF k = 0 \/ Len(s) <= k THEN s ELSE SubSeq(s, Len(s) - k + 1, Len(s))

\* every call in progress can still be ended within the depth bound
Room == Len(h) + Len(stack) < MaxDepth
Rec(act, f, d, flag, exp) ==
    h' = Append(h, [act |-> act, f |-> f, d |-> d, flag |-> flag, exp |-> exp])

Begin(f) ==
    /\ Len(h) + Len(stack) + 2 <= MaxDepth /\ Len(stack) < MaxNest
    /\ stack' = Append(stack, [f |-> f.id, name |-> f.name, start |-> now])
    /\ UNCHANGED <<table, order, now>>
    /\ nbar' = nbar + (IF f.id \in SyncIds THEN 1 ELSE 0)
    /\ Rec("begin", f.id, 0, FALSE, <<>>)

Tick(d) ==
    /\ Room /\ stack # <<>>
    /\ now' = now + d
    /\ UNCHANGED <<table, order, stack, nbar>>
    /\ Rec("tick", 0, d, FALSE, <<>>)

End(raises) ==
    /\ stack # <<>>
    /\ LET top == stack[Len(stack)]
           d == now - top.start
       IN /\ stack' = SubSeq(stack, 1, Len(stack) - 1)
          /\ IF raises
             THEN UNCHANGED <<table, order>>
             ELSE IF top.name \in Names
                  THEN /\ table' = [table EXCEPT ![Idx(top.name)] = Append(@, d)]
                       /\ order' = order
                  ELSE /\ table' = Append(table, <<d>>)
                       /\ order' = Append(order, top.name)
    /\ UNCHANGED now
    /\ nbar' = nbar + (IF stack[Len(stack)].f \in SyncIds /\ ~raises
                       THEN 1 ELSE 0)
    /\ Rec("end", 0, 0, raises, <<>>)

\* report: sequence of [name, num, den] (statistic = num / den) in table order
Report(avg, k) ==
    [i \in DOMAIN order |->
        LET s == LastN(table[i], k) IN
        [name |-> order[i], num |-> SumSeq(s),
         den |-> IF avg THEN Len(s) ELSE 1]]

Get(avg, k) ==
    /\ Room
    /\ UNCHANGED <<table, order, stack, now, nbar>>
    /\ Rec("get", 0, k, avg, Report(avg, k))

Clear ==
    /\ Room /\ order # <<>>
    /\ table' = <<>> /\ order' = <<>>
    /\ UNCHANGED <<stack, now, nbar>>
    /\ Rec("clear", 0, 0, FALSE, <<>>)

Next ==
    \/ \E f \in Funcs : Begin(f)
    \/ \E d \in Durs : Tick(d)
    \/ \E r \in BOOLEAN : End(r)
    \/ \E a \in BOOLEAN : \E k \in Hist : Get(a, k)
    \/ Clear
Spec == Init /\ [][Next]_vars
view == <<table, order, stack, now>>

(* properties *)
Tot(t) == SumSeq([i \in DOMAIN t |-> Len(t[i])])
\* exactly one sample per completed call, none otherwise (Clear aside)
OneSamplePerCompletedCall ==
    [][IF \E r \in BOOLEAN : End(r)
       THEN Tot(table') \in {Tot(table), Tot(table) + 1}
       ELSE (Tot(table') = Tot(table) \/ table' = <<>>)]_vars
QueriesDoNotChange ==
    [][(\E a \in BOOLEAN : \E k \in Hist : Get(a, k)) => UNCHANGED <<table, order>>]_vars
NoEmptyEntries == \A i \in DOMAIN table : table[i] # <<>>
UniqueKeys == \A i, j \in DOMAIN order : i # j => order[i] # order[j]
\* a sample is the duration of its own call: never longer than the elapsed time
SamplesBounded == \A i \in DOMAIN table : \A j \in DOMAIN table[i] : table[i][j] <= now
\* barriers come in pairs around completed synced calls: never more than two
\* per begun synced call, never fewer than one
SyncBegun == Len(SelectSeq(h, LAMBDA e : e.act = "begin" /\ e.f \in SyncIds))
BarriersBounded == nbar >= SyncBegun /\ nbar <= 2 * SyncBegun
\* nesting discipline: starts are non-decreasing along the stack
StackOrdered == \A i \in 1..(Len(stack) - 1) : stack[i].start <= stack[i + 1].start

EmitDone ==
    IF Len(h) >= MaxDepth \/ (Len(h) + Len(stack) >= MaxDepth)
    THEN IF stack = <<>> THEN PrintT(ToJson(h)) /\ FALSE ELSE TRUE
    ELSE TRUE

\* state-coverage emission (used with VIEW view, so every distinct table /
\* stack / clock state is visited once, by a shortest history): the history
\* that reached the state plus the report of EVERY query in that state
AllReports ==
    [a \in BOOLEAN |-> [k \in Hist |-> Report(a, k)]]
EmitState ==
    IF stack = <<>> /\ order # <<>>
    THEN PrintT(ToJson([h |-> h, nbar |-> nbar,
            q |-> {[avg |-> a, k |-> k, exp |-> Report(a, k)] :
                      a \in BOOLEAN, k \in Hist}]))
    ELSE TRUE
=============================================================================
