------------------------------ MODULE GptDist ------------------------------
(***************************************************************************)
(* The distributed protocol of GPTNeoXKFACPreconditioner on one pipeline   *)
(* stage with D data-parallel replicas x M model-parallel shards           *)
(* (kfac/gpt_neox/{layer,preconditioner,assignment,mpu}.py on top of       *)
(* kfac/base_preconditioner.py): WHICH collective every rank issues, on    *)
(* WHICH group, from WHICH root, for every public call of a history.       *)
(*                                                                         *)
(* Rank r = (p * D + d) * M + m (row-major over (pipe, data, model)).  A   *)
(* layer is [stage (the pipeline stage that owns it), par ("input": row-   *)
(* parallel, the INPUT is sharded | "output": column-parallel, the OUTPUT  *)
(* is sharded), bias, iw (inverse worker, a rank of the stage)].  Stages   *)
(* are independent K-FAC instances except for the world-level collectives  *)
(* of saving / loading and the creation of process groups.                 *)
(*   - the sharded side is gathered over the model-parallel group before   *)
(*     its second moment is taken; its factor is then averaged over the    *)
(*     data-parallel group BY THE PRIMARY RANKS ONLY (the rank of each     *)
(*     model-parallel group whose model coordinate is the inverse          *)
(*     worker's); the replicated side is averaged over all stage ranks;    *)
(*   - the ranks of the inverse worker's model-parallel group gather the   *)
(*     gradient, precondition it on the inverse worker and scatter it      *)
(*     back; every data-parallel group then broadcasts it from that row;   *)
(*   - clipping sums the partial inner products over the model group;      *)
(*   - saving / loading are world collectives.                             *)
(*                                                                         *)
(* As in KfacDist the clauses are predicates over ANY per-rank issue       *)
(* sequences: they are evaluated on the derived programs (design) and on   *)
(* the sequences recorded from the real code (c.trace); Conforms compares  *)
(* the two.                                                                *)
(*                                                                         *)
(* op = [kind, grp (set of ranks), root (-1 = none), cls ("f" factor       *)
(*       reduction | "x" activations / output gradients | "g" gradient |   *)
(*       "c" clip scalar | "o" objects / barrier), at (1-based history     *)
(*       index, 0 = constructor)]                                          *)
(***************************************************************************)
EXTENDS Naturals, Integers, Sequences, FiniteSets, TLC, Json

\* BEGIN-CONSTANTS
CONSTANTS Cases   \* sequence of case records (see harness/gptdist.py)
\* END-CONSTANTS

VARIABLE ci
Init == ci = 1
Next == ci < Len(Cases) /\ ci' = ci + 1
Spec == Init /\ [][Next]_ci
C == Cases[ci]

W(c) == c.P * c.D * c.M
World(c) == 0..(W(c) - 1)
Pc(c, r) == r \div (c.D * c.M)
Dc(c, r) == (r % (c.D * c.M)) \div c.M
Mc(c, r) == r % c.M
Stage(c, r) == {q \in World(c) : Pc(c, q) = Pc(c, r)}
MP(c, r) == {q \in Stage(c, r) : Dc(c, q) = Dc(c, r)}
DP(c, r) == {q \in Stage(c, r) : Mc(c, q) = Mc(c, r)}
NL(c) == Len(c.layers)
Mine(c, r, i) == c.layers[i].stage = Pc(c, r)      \* layer i lives on r's stage
NMine(c, r) == Cardinality({i \in 1..NL(c) : Mine(c, r, i)})

\* per-rank views of the assignment (GptAssign.tla)
Primary(c, r, i) == (Pc(c, r) * c.D + Dc(c, r)) * c.M + Mc(c, c.layers[i].iw)
IsGradWorker(c, r, i) == Dc(c, r) = Dc(c, c.layers[i].iw)
Src(c, r, i) == (Pc(c, r) * c.D + Dc(c, c.layers[i].iw)) * c.M + Mc(c, r)

Op(kind, grp, root, cls, at) ==
    [kind |-> kind, grp |-> grp, root |-> root, cls |-> cls, at |-> at]

RECURSIVE Cat(_)
Cat(ss) == IF ss = <<>> THEN <<>> ELSE Head(ss) \o Cat(Tail(ss))

(* ---- building blocks ---------------------------------------------------- *)
Gather(c, r, cls, at) ==
    IF c.M > 1 THEN <<Op("all_gather", MP(c, r), -1, cls, at)>> ELSE <<>>
ReduceSharded(c, r, i, at) ==
    IF r = Primary(c, r, i) /\ c.D > 1
    THEN <<Op("all_reduce", DP(c, r), -1, "f", at)>> ELSE <<>>
ReduceReplicated(c, r, at) ==
    IF c.D * c.M > 1 THEN <<Op("all_reduce", Stage(c, r), -1, "f", at)>>
    ELSE <<>>
ReduceA(c, r, i, at) ==
    IF c.layers[i].par = "input" THEN ReduceSharded(c, r, i, at)
    ELSE ReduceReplicated(c, r, at)
ReduceG(c, r, i, at) ==
    IF c.layers[i].par = "output" THEN ReduceSharded(c, r, i, at)
    ELSE ReduceReplicated(c, r, at)

(* one training micro-batch with the hooks armed; red: reduce in the hooks *)
Forward(c, r, red, at) ==
    Cat([k \in 1..NL(c) |->
        LET i == c.fwd[k] IN
        IF ~Mine(c, r, i) THEN <<>> ELSE
        (IF c.layers[i].par = "input" THEN Gather(c, r, "x", at) ELSE <<>>)
        \o (IF red THEN ReduceA(c, r, i, at) ELSE <<>>)])
Backward(c, r, red, at) ==
    Cat([k \in 1..NL(c) |->
        LET i == c.fwd[NL(c) + 1 - k] IN
        IF ~Mine(c, r, i) THEN <<>> ELSE
        (IF c.layers[i].par = "output" THEN Gather(c, r, "x", at) ELSE <<>>)
        \o (IF red THEN ReduceG(c, r, i, at) ELSE <<>>)])
Micro(c, r, j, at) ==
    LET red == c.inhook /\ (j % c.accum = 0)
    IN Forward(c, r, red, at) \o Backward(c, r, red, at)
Train(c, r, h, at) ==
    IF ~h.armed THEN <<>>
    ELSE Cat([j \in 1..h.micro |-> Micro(c, r, j, at)])

(* step() *)
StepReduce(c, r, h, at) ==
    IF c.inhook \/ ~h.factorStep THEN <<>>
    ELSE Cat([k \in 1..NL(c) |->
            LET i == NL(c) + 1 - k IN
            IF ~Mine(c, r, i) THEN <<>>
            ELSE ReduceA(c, r, i, at) \o ReduceG(c, r, i, at)])
Precondition(c, r, i, at) ==
    LET l == c.layers[i] IN
    IF c.M = 1 THEN <<>>
    ELSE Gather(c, r, "g", at)
         \o (IF l.bias /\ l.par = "output" THEN Gather(c, r, "g", at) ELSE <<>>)
         \o <<Op("reduce_scatter", MP(c, r), -1, "g", at)>>
         \o (IF ~l.bias THEN <<>>
             ELSE IF l.par = "output"
                  THEN <<Op("reduce_scatter", MP(c, r), -1, "g", at)>>
                  ELSE <<Op("broadcast", MP(c, r), Primary(c, r, i), "g", at)>>)
GradBcast(c, r, i, at) ==
    IF c.D > 1 THEN <<Op("broadcast", DP(c, r), Src(c, r, i), "g", at)>>
    ELSE <<>>
StepGrads(c, r, at) ==
    Cat([k \in 1..NL(c) |->
        LET i == NL(c) + 1 - k IN
        IF ~Mine(c, r, i) THEN <<>> ELSE
        (IF IsGradWorker(c, r, i) THEN Precondition(c, r, i, at) ELSE <<>>)
        \o GradBcast(c, r, i, at)])
Clip(c, r, at) ==
    IF c.clip /\ c.M > 1 THEN <<Op("all_reduce", MP(c, r), -1, "c", at)>>
    ELSE <<>>
Step(c, r, h, at) ==
    StepReduce(c, r, h, at) \o StepGrads(c, r, at) \o Clip(c, r, at)

(* state_dict / load_state_dict *)
Save(c, r, h, at) ==
    IF ~h.incl THEN <<>>
    ELSE IF c.dir THEN <<Op("barrier", World(c), -1, "o", at)>>
    ELSE <<Op("all_gather_object", World(c), -1, "o", at),
           Op("barrier", World(c), -1, "o", at)>>
Load(c, r, h, at) ==
    IF c.dir \/ ~h.haslayers THEN <<>>
    ELSE <<Op("barrier", World(c), -1, "o", at)>>

Construct(c, r, at) == <<Op("all_gather_object", DP(c, r), -1, "o", at)>>

OpProg(c, r, h, at) ==
    CASE h.act = "train" -> Train(c, r, h, at)
      [] h.act = "step"  -> Step(c, r, h, at)
      [] h.act = "save"  -> Save(c, r, h, at)
      [] h.act = "load"  -> Construct(c, r, at) \o Load(c, r, h, at)
      [] OTHER           -> <<>>
Prog(c, r) ==
    Construct(c, r, 0) \o
    Cat([k \in 1..Len(c.hist) |-> OpProg(c, r, c.hist[k], k)])
Derived(c) == [r \in 1..W(c) |-> Prog(c, r - 1)]

\* process groups K-FAC creates (world-level collectives): the stage peer
\* group in the constructor when neither existing group covers the stage,
\* a gloo world group for the object gather of state_dict
NGProg(c, r) ==
    LET Ctor(at) == IF c.D > 1 /\ c.M > 1
                    THEN [p \in 1..c.P |->
                            [ranks |-> {q \in World(c) : Pc(c, q) = p - 1},
                             at |-> at]]
                    ELSE <<>>
    IN Ctor(0) \o Cat([k \in 1..Len(c.hist) |->
        LET h == c.hist[k] IN
        CASE h.act = "load" -> Ctor(k)
          [] h.act = "save" /\ h.incl /\ ~c.dir -> <<[ranks |-> World(c), at |-> k]>>
          [] OTHER -> <<>>])
NGDerived(c) == [r \in 1..W(c) |-> NGProg(c, r - 1)]
\* any group is created by all ranks, in the same order
NGSame(c, N) == \A r1, r2 \in 1..W(c) : N[r1] = N[r2]

(* ---- clauses over per-rank issue sequences ------------------------------ *)
\* sharded-side factors are averaged over a data-parallel group by primary
\* ranks only; replicated-side factors over all ranks of the stage
IsPrimaryOfSome(c, r) ==
    \E i \in 1..NL(c) : Mine(c, r, i) /\ r = Primary(c, r, i)
FactorReductionGroups(c, P) ==
    \A r \in World(c) : \A j \in DOMAIN P[r + 1] :
        LET o == P[r + 1][j] IN
        (o.kind = "all_reduce" /\ o.cls = "f") =>
            \/ o.grp = Stage(c, r)
            \/ (o.grp = DP(c, r) /\ IsPrimaryOfSome(c, r))
\* gathers and scatters of shards stay inside the rank's model-parallel group
ShardTrafficInModelGroup(c, P) ==
    \A r \in World(c) : \A j \in DOMAIN P[r + 1] :
        LET o == P[r + 1][j] IN
        o.kind \in {"all_gather", "reduce_scatter"} => o.grp = MP(c, r)
\* a gradient travels inside a model group from its primary rank, or inside a
\* data group from the replica row of an inverse worker
GradientBroadcasts(c, P) ==
    \A r \in World(c) : \A j \in DOMAIN P[r + 1] :
        LET o == P[r + 1][j] IN
        o.kind = "broadcast" =>
            \/ (o.grp = MP(c, r) /\ \E i \in 1..NL(c) :
                    Mine(c, r, i) /\ o.root = Primary(c, r, i))
            \/ (o.grp = DP(c, r) /\ \E i \in 1..NL(c) :
                    Mine(c, r, i) /\ o.root = Src(c, r, i))
\* on every step every data group receives every layer exactly once
StepIdx(c) == {k \in DOMAIN c.hist : c.hist[k].act = "step"}
CountSel(s, Test(_)) == Len(SelectSeq(s, Test))
EveryLayerBroadcastOnce(c, P) ==
    c.D > 1 =>
    \A r \in World(c) : \A k \in StepIdx(c) :
        CountSel(P[r + 1], LAMBDA o : o.at = k /\ o.kind = "broadcast"
                                      /\ o.grp = DP(c, r)) = NMine(c, r)
\* only the inverse worker's model group gathers / scatters gradients
OnlyGradWorkersPrecondition(c, P) ==
    \A r \in World(c) : \A k \in StepIdx(c) :
        CountSel(P[r + 1], LAMBDA o : o.at = k /\ o.kind = "reduce_scatter")
            >= Cardinality({i \in 1..NL(c) : Mine(c, r, i)
                               /\ IsGradWorker(c, r, i) /\ c.M > 1})
        /\ (({i \in 1..NL(c) : Mine(c, r, i) /\ IsGradWorker(c, r, i)} = {}) =>
              CountSel(P[r + 1], LAMBDA o : o.at = k
                        /\ o.kind \in {"reduce_scatter"}) = 0)
\* saving and loading: the same world-level collectives on every rank (C18)
SaveLoadIdx(c) == {k \in DOMAIN c.hist : c.hist[k].act \in {"save", "load"}}
SaveLoadSameOnAllRanks(c, P) ==
    \A k \in SaveLoadIdx(c) : \A r1, r2 \in World(c) :
        LET S(r) == SelectSeq(P[r + 1], LAMBDA o : o.at = k /\ o.cls = "o"
                                                  /\ o.grp = World(c))
            K(s) == [j \in DOMAIN s |-> s[j].kind]
        IN K(S(r1)) = K(S(r2))
\* nothing data-dependent happens outside training / step / save / load
NothingWhenAlone(c, P) ==
    W(c) = 1 => \A j \in DOMAIN P[1] : P[1][j].cls = "o"
\* what one rank issues on a group is what every member issues, in order
OnGroup(P, r, grp) == SelectSeq(P[r + 1], LAMBDA o : o.grp = grp)
Strip(s) == [j \in DOMAIN s |-> [kind |-> s[j].kind, root |-> s[j].root,
                                 at |-> s[j].at]]
GroupsUsed(c, P) ==
    UNION {{P[r + 1][j].grp : j \in DOMAIN P[r + 1]} : r \in World(c)}
MatchAcrossRanks(c, P) ==
    \A g \in GroupsUsed(c, P) : \A r1, r2 \in g :
        Strip(OnGroup(P, r1, g)) = Strip(OnGroup(P, r2, g))
MembersOnly(c, P) ==
    \A r \in World(c) : \A j \in DOMAIN P[r + 1] : r \in P[r + 1][j].grp

\* executing every collective as a BLOCKING call (the strongest reading: a
\* rank proceeds only when all members of the group have reached the same
\* call) runs every rank to the end of its sequence.  Completing a call only
\* enables more calls, so one greedy run decides it.
Ready(c, P, pc, r) ==
    LET o == P[r + 1][pc[r + 1]] IN
    \A q \in o.grp :
        /\ pc[q + 1] <= Len(P[q + 1])
        /\ LET o2 == P[q + 1][pc[q + 1]]
           IN o2.grp = o.grp /\ o2.kind = o.kind /\ o2.root = o.root
RECURSIVE RunsToEnd(_, _, _)
RunsToEnd(c, P, pc) ==
    LET heads == {r \in World(c) : pc[r + 1] <= Len(P[r + 1])} IN
    IF heads = {} THEN TRUE
    ELSE IF \E r \in heads : Ready(c, P, pc, r)
         THEN LET r == CHOOSE x \in heads : Ready(c, P, pc, x)
                  g == P[r + 1][pc[r + 1]].grp
              IN RunsToEnd(c, P, [q \in 1..W(c) |->
                            IF (q - 1) \in g THEN pc[q] + 1 ELSE pc[q]])
         ELSE FALSE
NoStallBlocking(c, P) == RunsToEnd(c, P, [q \in 1..W(c) |-> 1])

Clauses(c, P) ==
    /\ FactorReductionGroups(c, P)
    /\ ShardTrafficInModelGroup(c, P)
    /\ GradientBroadcasts(c, P)
    /\ EveryLayerBroadcastOnce(c, P)
    /\ OnlyGradWorkersPrecondition(c, P)
    /\ SaveLoadSameOnAllRanks(c, P)
    /\ NothingWhenAlone(c, P)
    /\ MatchAcrossRanks(c, P)
    /\ MembersOnly(c, P)

(* bucketed factor reductions are fused and deferred: compare without them *)
NoFactorRed(s) == SelectSeq(s, LAMBDA o : ~(o.kind = "all_reduce" /\ o.cls = "f"))
View(c, P) == IF c.bucketed THEN [r \in 1..W(c) |-> NoFactorRed(P[r])] ELSE P

DesignOK == /\ Clauses(C, Derived(C))
            /\ NGSame(C, NGDerived(C))
            /\ NoStallBlocking(C, Derived(C))
T_NoStallBlocking == NoStallBlocking(C, C.trace)
T_FactorGroups == FactorReductionGroups(C, C.trace)
T_ShardTraffic == ShardTrafficInModelGroup(C, C.trace)
T_GradBcast == GradientBroadcasts(C, C.trace)
T_BcastOnce == EveryLayerBroadcastOnce(C, C.trace)
T_GradWorkers == OnlyGradWorkersPrecondition(C, C.trace)
T_SaveLoad == SaveLoadSameOnAllRanks(C, C.trace)
T_Alone == NothingWhenAlone(C, C.trace)
T_Match == MatchAcrossRanks(C, C.trace)
T_Members == MembersOnly(C, C.trace)
T_NGSame == NGSame(C, C.ngtrace)
Conforms == View(C, C.trace) = View(C, Derived(C))
NGConforms == C.ngtrace = NGDerived(C)
EmitDerived == PrintT(ToJson([ci |-> ci, derived |-> Derived(C)]))
=============================================================================
