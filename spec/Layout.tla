------------------------------ MODULE Layout ------------------------------
(***************************************************************************)
(* Layout conventions of the layer helpers (kfac/layers/modules.py):       *)
(*  - conv patch extraction: for output position (oh, ow) and feature f,   *)
(*    which input element (channel, row, col) is read, or ZERO (padding);  *)
(*    features are ordered channel-major, then kernel row, then kernel     *)
(*    column -- the order of weight.view(out, -1) -- followed by the bias  *)
(*    column of ones;                                                      *)
(*  - combined gradient: one row per output unit, columns = features in    *)
(*    that same order, then the bias;                                      *)
(*  - factor shapes.                                                       *)
(* One state per geometry tuple; TLC enumerates them, checks the structural*)
(* properties and emits the index map for the conformance replay.          *)
(***************************************************************************)
EXTENDS Naturals, Integers, Sequences, FiniteSets, TLC, Json

\* BEGIN-CONSTANTS
CONSTANTS
    Cins, Couts, KHs, KWs, SHs, SWs, PHs, PWs, Hs, Ws
\* END-CONSTANTS

VARIABLE g
Init ==
    \E cin \in Cins : \E cout \in Couts : \E kh \in KHs : \E kw \in KWs :
    \E sh \in SHs : \E sw \in SWs : \E ph \in PHs : \E pw \in PWs :
    \E hh \in Hs : \E ww \in Ws : \E bias \in BOOLEAN :
        /\ hh + 2 * ph >= kh /\ ww + 2 * pw >= kw
        /\ g = [cin |-> cin, cout |-> cout, kh |-> kh, kw |-> kw, sh |-> sh,
                sw |-> sw, ph |-> ph, pw |-> pw, h |-> hh, w |-> ww,
                bias |-> bias]
Next == UNCHANGED g
Spec == Init /\ [][Next]_g

OutH(x) == (x.h + 2 * x.ph - x.kh) \div x.sh + 1
OutW(x) == (x.w + 2 * x.pw - x.kw) \div x.sw + 1
NFeat(x) == x.cin * x.kh * x.kw
ZERO == -1

\* flat index (row major over channel, row, col) of the input element read
\* for output position (oh, ow) (0-based) and feature f (0-based), or ZERO
PatchIndex(x, oh, ow, f) ==
    LET c == f \div (x.kh * x.kw)
        ki == (f % (x.kh * x.kw)) \div x.kw
        kj == f % x.kw
        row == oh * x.sh + ki - x.ph
        col == ow * x.sw + kj - x.pw
    IN IF row < 0 \/ row >= x.h \/ col < 0 \/ col >= x.w THEN ZERO
       ELSE (c * x.h + row) * x.w + col

\* column of the combined gradient holding weight[o, c, ki, kj]
GradColumn(x, c, ki, kj) == (c * x.kh + ki) * x.kw + kj
BiasColumn(x) == NFeat(x)
AShape(x) == NFeat(x) + (IF x.bias THEN 1 ELSE 0)
GShape(x) == x.cout
CombinedShape(x) == <<x.cout, AShape(x)>>

(* structural properties *)
\* inside one patch distinct features read distinct input elements
PatchInjective ==
    \A oh \in 0..(OutH(g) - 1) : \A ow \in 0..(OutW(g) - 1) :
        \A f1, f2 \in 0..(NFeat(g) - 1) :
            (f1 # f2 /\ PatchIndex(g, oh, ow, f1) # ZERO)
                => PatchIndex(g, oh, ow, f1) # PatchIndex(g, oh, ow, f2)
\* the feature order is the order of the gradient columns
FeatureIsColumn ==
    \A c \in 0..(g.cin - 1) : \A ki \in 0..(g.kh - 1) : \A kj \in 0..(g.kw - 1) :
        LET f == GradColumn(g, c, ki, kj) IN
        /\ f \in 0..(NFeat(g) - 1)
        /\ f \div (g.kh * g.kw) = c
        /\ (f % (g.kh * g.kw)) \div g.kw = ki
        /\ f % g.kw = kj
\* without padding nothing is ZERO; every index is a valid input position
IndicesValid ==
    \A oh \in 0..(OutH(g) - 1) : \A ow \in 0..(OutW(g) - 1) :
        \A f \in 0..(NFeat(g) - 1) :
            LET p == PatchIndex(g, oh, ow, f) IN
            /\ p = ZERO \/ p \in 0..(g.cin * g.h * g.w - 1)
            /\ (g.ph = 0 /\ g.pw = 0) => p # ZERO
OutputPositive == OutH(g) >= 1 /\ OutW(g) >= 1

Emit ==
    PrintT(ToJson([g |-> g, oh |-> OutH(g), ow |-> OutW(g),
                   ashape |-> AShape(g), gshape |-> GShape(g),
                   map |-> [o \in 1..(OutH(g) * OutW(g)) |->
                              [f \in 1..NFeat(g) |->
                                 PatchIndex(g, (o - 1) \div OutW(g),
                                            (o - 1) % OutW(g), f - 1)]]]))
=============================================================================
