------------------------------- MODULE Comm -------------------------------
(***************************************************************************)
(* Generic model of torch.distributed collective communication as used by  *)
(* kfac-pytorch.                                                           *)
(*                                                                         *)
(* Every rank r runs a fixed sequential program Prog[r] of operations:     *)
(*   "NG"  new_group(ranks)        world-level collective, blocking        *)
(*   "I"   issue the i-th collective of r on group g (non blocking)        *)
(*   "W"   wait for slot i of group g (blocking)                           *)
(*   "F"   an attempt to communicate on a group r is not a member of       *)
(* A synchronous collective is "I" immediately followed by "W".            *)
(*                                                                         *)
(* Contract modelled (the documented torch.distributed contract):          *)
(*   - the i-th operation a member issues on a group joins slot i of that  *)
(*     group; a slot completes when all members joined; slots of one group *)
(*     complete in order; completion is a step of its own (Complete);      *)
(*   - new_group must be called by every rank of the world, with the same  *)
(*     rank list, in the same order.                                       *)
(*                                                                         *)
(* Prog is a constant: either derived from KfacDist.tla / GptDist.tla for  *)
(* a configuration, or extracted from a recorded execution of the real     *)
(* code (harness/progs.py).  TLC then explores every interleaving.         *)
(***************************************************************************)
EXTENDS Naturals, Integers, Sequences, FiniteSets, TLC

\* BEGIN-CONSTANTS  (harness/progs.py replaces this block by definitions
\* when it generates a model-checking instance: `Prog <- MCProg` style
\* substitution makes TLC re-evaluate the big constant on every access)
CONSTANTS
    Ranks,      \* set of ranks 0..W-1
    Groups,     \* set of group ids
    Members,    \* [Groups -> SUBSET Ranks]
    Prog        \* [Ranks -> Seq(Op)]
\* END-CONSTANTS

NoRoot == -1

VARIABLES
    pc,         \* [Ranks -> Nat]      index of the next operation (1-based)
    issued,     \* [Groups -> [Ranks -> Nat]]  ops issued by r on g
    completed,  \* [Groups -> Nat]     slots completed on g
    inflight,   \* [Groups -> Seq([Ranks -> meta | None])] open slots of g
    ngi,        \* [Ranks -> Nat]      new_group calls entered by r
    ngc         \* Nat                 new_group calls completed

vars == <<pc, issued, completed, inflight, ngi, ngc>>

None == [kind |-> "none", root |-> NoRoot, numel |-> 0, dtype |-> "none"]

Len0(r) == Len(Prog[r])
AtEnd(r) == pc[r] > Len0(r)
Op(r) == Prog[r][pc[r]]
MetaOf(op) == [kind |-> op.kind, root |-> op.root,
               numel |-> op.numel, dtype |-> op.dtype]

Init ==
    /\ pc = [r \in Ranks |-> 1]
    /\ issued = [g \in Groups |-> [r \in Ranks |-> 0]]
    /\ completed = [g \in Groups |-> 0]
    /\ inflight = [g \in Groups |-> <<>>]
    /\ ngi = [r \in Ranks |-> 0]
    /\ ngc = 0

(* position (1-based) of slot i inside inflight[g] *)
Pos(g, i) == i - completed[g]

Issue(r) ==
    /\ ~AtEnd(r)
    /\ Op(r).t = "I"
    /\ LET g == Op(r).g
           i == issued[g][r] + 1
           p == Pos(g, i)
       IN /\ issued' = [issued EXCEPT ![g][r] = i]
          /\ inflight' =
               [inflight EXCEPT ![g] =
                  IF p > Len(@)
                  THEN Append(@, [q \in Ranks |->
                                     IF q = r THEN MetaOf(Op(r)) ELSE None])
                  ELSE [@ EXCEPT ![p][r] = MetaOf(Op(r))]]
    /\ pc' = [pc EXCEPT ![r] = @ + 1]
    /\ UNCHANGED <<completed, ngi, ngc>>

Wait(r) ==
    /\ ~AtEnd(r)
    /\ Op(r).t = "W"
    /\ completed[Op(r).g] >= Op(r).i
    /\ pc' = [pc EXCEPT ![r] = @ + 1]
    /\ UNCHANGED <<issued, completed, inflight, ngi, ngc>>

Complete(g) ==
    /\ \A r \in Members[g] : issued[g][r] > completed[g]
    /\ completed' = [completed EXCEPT ![g] = @ + 1]
    /\ inflight' = [inflight EXCEPT ![g] = Tail(@)]
    /\ UNCHANGED <<pc, issued, ngi, ngc>>

(* new_group: enter, complete (all ranks entered), leave *)
NGEnter(r) ==
    /\ ~AtEnd(r)
    /\ Op(r).t = "NG"
    /\ ngi[r] < Op(r).i
    /\ ngi' = [ngi EXCEPT ![r] = @ + 1]
    /\ UNCHANGED <<pc, issued, completed, inflight, ngc>>

NGComplete ==
    /\ \A r \in Ranks : ngi[r] > ngc
    /\ ngc' = ngc + 1
    /\ UNCHANGED <<pc, issued, completed, inflight, ngi>>

NGLeave(r) ==
    /\ ~AtEnd(r)
    /\ Op(r).t = "NG"
    /\ ngi[r] >= Op(r).i
    /\ ngc >= Op(r).i
    /\ pc' = [pc EXCEPT ![r] = @ + 1]
    /\ UNCHANGED <<issued, completed, inflight, ngi, ngc>>

(* A foreign-group use does not communicate (torch warns and returns None) *)
Foreign(r) ==
    /\ ~AtEnd(r)
    /\ Op(r).t = "F"
    /\ pc' = [pc EXCEPT ![r] = @ + 1]
    /\ UNCHANGED <<issued, completed, inflight, ngi, ngc>>

Done == \A r \in Ranks : AtEnd(r)
AllComplete ==
    /\ \A g \in Groups : \A r \in Members[g] : issued[g][r] = completed[g]
    /\ \A g \in Groups : inflight[g] = <<>>
    /\ \A r \in Ranks : ngi[r] = ngc

Terminated == Done /\ AllComplete /\ UNCHANGED vars

RankStep(r) == Issue(r) \/ Wait(r) \/ NGEnter(r) \/ NGLeave(r) \/ Foreign(r)

Next ==
    \/ \E r \in Ranks : RankStep(r)
    \/ \E g \in Groups : Complete(g)
    \/ NGComplete
    \/ Terminated

Spec == Init /\ [][Next]_vars

FairSpec ==
    /\ Spec
    /\ \A r \in Ranks : WF_vars(RankStep(r))
    /\ \A g \in Groups : WF_vars(Complete(g))
    /\ WF_vars(NGComplete)

(***************************************************************************)
(* Partial-order reduction used for long programs (config CommPOR):        *)
(* non-blocking steps of different ranks commute and none of them can      *)
(* disable another action, and the invariants below are insensitive to the *)
(* order in which they are taken (a mismatch inside a slot is visible from *)
(* the moment the second member joins until the slot completes, and a slot *)
(* completes only after all members joined).  Hence: if some rank has an   *)
(* enabled non-blocking step, let only the lowest such rank move.          *)
(***************************************************************************)
NonBlocking(r) ==
    /\ ~AtEnd(r)
    /\ \/ Op(r).t \in {"I", "F"}
       \/ (Op(r).t = "NG" /\ ngi[r] < Op(r).i)

NextPOR ==
    IF \E r \in Ranks : NonBlocking(r)
    THEN LET r == CHOOSE q \in Ranks :
                     NonBlocking(q) /\ \A p \in Ranks : NonBlocking(p) => q <= p
         IN Issue(r) \/ NGEnter(r) \/ Foreign(r)
    ELSE Next

SpecPOR == Init /\ [][NextPOR]_vars

(***************************************************************************)
(* Linearisation (config CommLIN) for long programs.  Every action of this *)
(* model is persistent (once enabled it stays enabled until taken: pc of   *)
(* another rank, `completed` and `ngc` only grow) and commutes with every  *)
(* other action, so the transition system is confluent: all maximal        *)
(* behaviours reach the same final state and a stall is reachable iff the  *)
(* single prioritised behaviour stalls; a slot mismatch is visible in the  *)
(* state right before that slot completes on every path.  The full and POR *)
(* configs are run next to this one on the small instances and must agree. *)
(***************************************************************************)
EnabledWait(r) == ~AtEnd(r) /\ Op(r).t = "W" /\ completed[Op(r).g] >= Op(r).i
EnabledLeave(r) == ~AtEnd(r) /\ Op(r).t = "NG" /\ ngi[r] >= Op(r).i /\ ngc >= Op(r).i
EnabledComplete(g) == \A r \in Members[g] : issued[g][r] > completed[g]
Lowest(S) == CHOOSE x \in S : \A y \in S : x <= y

NextLIN ==
    IF \E r \in Ranks : NonBlocking(r)
    THEN LET r == Lowest({q \in Ranks : NonBlocking(q)})
         IN Issue(r) \/ NGEnter(r) \/ Foreign(r)
    ELSE IF \E r \in Ranks : EnabledWait(r) \/ EnabledLeave(r)
    THEN LET r == Lowest({q \in Ranks : EnabledWait(q) \/ EnabledLeave(q)})
         IN Wait(r) \/ NGLeave(r)
    ELSE IF \E g \in Groups : EnabledComplete(g)
    THEN Complete(Lowest({g \in Groups : EnabledComplete(g)}))
    ELSE NGComplete \/ Terminated

SpecLIN == Init /\ [][NextLIN]_vars

---------------------------------------------------------------------------
(* Properties (C03)                                                         *)

\* an issuer is a member of the group, and so is the root
MemberOnly ==
    \A r \in Ranks :
        (~AtEnd(r) /\ Op(r).t = "I") =>
            /\ r \in Members[Op(r).g]
            /\ (Op(r).root # NoRoot => Op(r).root \in Members[Op(r).g])

\* nobody ever attempts to use a group it is not a member of
NoForeign == \A r \in Ranks : ~(~AtEnd(r) /\ Op(r).t = "F")

\* all members that joined a slot agree on kind, root, numel, dtype
MatchInv ==
    \A g \in Groups :
        \A p \in 1..Len(inflight[g]) :
            \A r1, r2 \in Members[g] :
                LET m1 == inflight[g][p][r1]
                    m2 == inflight[g][p][r2]
                IN (m1 # None /\ m2 # None) => m1 = m2

\* only members join a slot
OnlyMembersJoin ==
    \A g \in Groups :
        \A p \in 1..Len(inflight[g]) :
            \A r \in Ranks \ Members[g] : inflight[g][p][r] = None

\* the k-th new_group call has the same rank list on every rank
IsNG(op) == op.t = "NG"
NGSeqs == [r \in Ranks |-> SelectSeq(Prog[r], IsNG)]   \* constant, evaluated once

SameNewGroupSeq ==
    \A r1, r2 \in Ranks :
        \A k \in 1..ngi[r1] :
            k <= ngi[r2] => NGSeqs[r1][k].ranks = NGSeqs[r2][k].ranks

\* a wait never refers to a slot the rank has not issued itself
WaitOwnSlot ==
    \A r \in Ranks :
        (~AtEnd(r) /\ Op(r).t = "W") => issued[Op(r).g][r] >= Op(r).i

\* NoStall is TLC's deadlock check: Terminated is the only way to stutter.
\* Termination under fairness (checked on the small configs only):
Termination == <>(Done /\ AllComplete)

TypeOK ==
    /\ \A r \in Ranks : pc[r] \in 1..(Len0(r) + 1)
    /\ \A g \in Groups : completed[g] \in Nat
    /\ ngc \in Nat
=============================================================================
