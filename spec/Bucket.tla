------------------------------ MODULE Bucket ------------------------------
(***************************************************************************)
(* TorchDistributedCommunicator (kfac/distributed.py): allreduce,          *)
(* allreduce_bucketed, flush_allreduce_buckets.                            *)
(*                                                                         *)
(* A 2 x 2 world {0,1,2,3} with the groups one communicator may be used    *)
(* with: "world", the rank's "row" ({0,1} / {2,3}), its "col" ({0,2} /     *)
(* {1,3}) -- two DISTINCT groups of EQUAL size -- and "self" (size 1).     *)
(* Every rank performs the same program of calls (group given as a role);  *)
(* rank-local processing is deterministic, so the per-rank wire sequences  *)
(* are pure functions of the program, computed by Run(r).                  *)
(*                                                                         *)
(* A program is generated as a behaviour (AddCall / AddFlush); the         *)
(* invariants are evaluated on every program followed by a final flush.    *)
(*                                                                         *)
(* Call  = [op, id, ty, g, avg, sym, inst]                                 *)
(*   inst "both" | "first" | "second": which INSTANCE of the role's group   *)
(*        performs the call ("first" = the row / column containing rank 0), *)
(*        so that ranks of one group may see different traffic on their     *)
(*        OTHER groups (rank-asymmetric programs)                           *)
(*   op "ar"  unbucketed allreduce, "arb" bucketed, "flush"                *)
(*   ty  index into Types: [bytes, symbytes, dt, square]                   *)
(* Wire op = [g |-> group role actually used, ids |-> <<tensor ids>>,      *)
(*            bytes |-> total, dts |-> set of dtypes fused]                *)
(***************************************************************************)
EXTENDS Naturals, Sequences, FiniteSets, TLC, Json

\* BEGIN-CONSTANTS
CONSTANTS
    Cap,        \* bucket capacity in bytes
    KeyMode,    \* "group": a bucket per group (the design);
                \* "size" : a bucket per group SIZE (what the pinned code did)
    DtMode,     \* "split": a bucket holds one dtype (the design);
                \* "mixed": dtypes are fused (what the pinned code did)
    Types,      \* sequence of tensor types
    Roles,      \* group roles programs may use
    Insts,      \* subset of {"both", "first", "second"}
    MaxCalls
\* END-CONSTANTS

Ranks == 0..3
\* "worldx" / "rowx" are SECOND HANDLES (another new_group result) over the
\* ranks of "world" / "row": a handle is not a group -- the bucket, and the
\* reduction, belong to the set of ranks
GroupOf(r, role) ==
    CASE role \in {"world", "worldx"} -> {0, 1, 2, 3}
      [] role \in {"row", "rowx"} -> IF r \in {0, 1} THEN {0, 1} ELSE {2, 3}
      [] role = "col"   -> IF r \in {0, 2} THEN {0, 2} ELSE {1, 3}
      [] role = "self"  -> {r}

Participates(r, c) ==
    \/ c.op = "flush"
    \/ c.inst = "both"
    \/ c.g \in {"world", "worldx", "self"}
    \/ (c.inst = "first" /\ 0 \in GroupOf(r, c.g))
    \/ (c.inst = "second" /\ 0 \notin GroupOf(r, c.g))

Key(r, role) ==
    IF KeyMode = "group" THEN GroupOf(r, role)
    ELSE {Cardinality(GroupOf(r, role))}     \* frozenset(range(size)) ~ size

Bytes(c) == IF c.sym THEN Types[c.ty].symbytes ELSE Types[c.ty].bytes
Dt(c) == Types[c.ty].dt

\* communicator state of one rank: open buckets + wire + rejected calls
EmptyComm == [open |-> <<>>, wire |-> <<>>, rejected |-> {}, direct |-> {}]
\* open: sequence of [key, role (the group the bucket was opened for), ids,
\*       bytes, dts]  (python dict: insertion ordered, one entry per key)

FindOpen(st, key) ==
    LET idx == {i \in DOMAIN st.open : st.open[i].key = key}
    IN IF idx = {} THEN 0 ELSE CHOOSE i \in idx : TRUE

SendBucket(st, i) ==   \* bucket.allreduce(): nothing on the wire if empty
    LET b == st.open[i] IN
    IF b.ids = <<>> THEN st
    ELSE [st EXCEPT !.wire = Append(@, [g |-> b.role, ids |-> b.ids,
                                        bytes |-> b.bytes, dts |-> b.dts])]

RemoveAt(s, i) == SubSeq(s, 1, i - 1) \o SubSeq(s, i + 1, Len(s))

\* A python dict keeps the position of a key after its value is set to None
\* (flush) and re-assigned later, so entries are never removed: live = FALSE
\* stands for "None".
Step(r, st, c) ==
    IF ~Participates(r, c) THEN st
    ELSE IF c.op = "flush"
    THEN LET RECURSIVE FlushFrom(_, _)
             FlushFrom(s, i) ==
                 IF i > Len(s.open) THEN s
                 ELSE IF ~s.open[i].live THEN FlushFrom(s, i + 1)
                 ELSE FlushFrom([SendBucket(s, i) EXCEPT
                                    !.open[i].live = FALSE, !.open[i].ids = <<>>,
                                    !.open[i].bytes = 0, !.open[i].dts = {}],
                                i + 1)
         IN FlushFrom(st, 1)
    ELSE IF Cardinality(GroupOf(r, c.g)) = 1
    THEN [st EXCEPT !.direct = @ \cup {c.id}]           \* returned as is
    ELSE IF c.sym /\ ~Types[c.ty].square
    THEN [st EXCEPT !.rejected = @ \cup {c.id}]         \* NonSquareTensorError
    ELSE IF c.op = "ar"
    THEN [st EXCEPT !.wire = Append(@, [g |-> c.g, ids |-> <<c.id>>,
                                        bytes |-> Bytes(c), dts |-> {Dt(c)}])]
    ELSE \* "arb"
      LET key == Key(r, c.g)
          fresh == [key |-> key, role |-> c.g, ids |-> <<>>, bytes |-> 0,
                    dts |-> {}, live |-> TRUE]
          i0 == FindOpen(st, key)
          st1 == IF i0 = 0 THEN [st EXCEPT !.open = Append(@, fresh)]
                 ELSE IF ~st.open[i0].live THEN [st EXCEPT !.open[i0] = fresh]
                 ELSE st
          i == FindOpen(st1, key)
          b == st1.open[i]
          over == \/ b.bytes + Bytes(c) > Cap
                  \/ (DtMode = "split" /\ b.dts # {} /\ Dt(c) \notin b.dts)
          \* overflow: send the current bucket, replace it by a new one opened
          \* for THIS call's group
          st2 == IF over THEN [SendBucket(st1, i) EXCEPT !.open[i] = fresh]
                 ELSE st1
      IN [st2 EXCEPT !.open[i].ids = Append(@, c.id),
                     !.open[i].bytes = @ + Bytes(c),
                     !.open[i].dts = @ \cup {Dt(c)}]

RECURSIVE RunRec(_, _, _)
RunRec(r, st, prog) ==
    IF prog = <<>> THEN st ELSE RunRec(r, Step(r, st, Head(prog)), Tail(prog))
FlushCall == [op |-> "flush", id |-> 0, ty |-> 1, g |-> "world",
              avg |-> FALSE, sym |-> FALSE, inst |-> "both"]
Run(r, prog) == RunRec(r, EmptyComm, Append(prog, FlushCall))

---------------------------------------------------------------------------
VARIABLE prog
Init == prog = <<>>
NextId == Len(SelectSeq(prog, LAMBDA c : c.op # "flush")) + 1
AddCall ==
    /\ Len(prog) < MaxCalls
    /\ \E op \in {"ar", "arb"} : \E ty \in DOMAIN Types : \E g \in Roles :
       \E sym \in BOOLEAN : \E inst \in Insts :
          /\ (g \in {"world", "worldx", "self"}) => inst = "both"
          \* `average` does not influence bucketing: alternate it by position
          /\ prog' = Append(prog, [op |-> op, id |-> NextId, ty |-> ty, g |-> g,
                                   avg |-> (NextId % 2 = 1), sym |-> sym,
                                   inst |-> inst])
AddFlush ==
    /\ Len(prog) < MaxCalls /\ prog # <<>> /\ prog[Len(prog)].op # "flush"
    /\ prog' = Append(prog, FlushCall)
Next == AddCall \/ AddFlush
Spec == Init /\ [][Next]_prog

---------------------------------------------------------------------------
(* Properties (C08), evaluated for the program followed by a final flush    *)
Calls == SelectSeq(prog, LAMBDA c : c.op # "flush")
CallOf(id) == CHOOSE c \in {Calls[i] : i \in DOMAIN Calls} : c.id = id
WireIds(st) == UNION {{w.ids[j] : j \in DOMAIN w.ids} :
                         w \in {st.wire[i] : i \in DOMAIN st.wire}}
Occurrences(st, id) ==
    Cardinality({<<i, j>> \in (DOMAIN st.wire) \X (1..MaxCalls) :
                    j \in DOMAIN st.wire[i].ids /\ st.wire[i].ids[j] = id})

\* every tensor is communicated exactly once (or returned directly / rejected)
ExactlyOnce ==
    \A r \in Ranks : LET st == Run(r, prog) IN
        \A i \in DOMAIN Calls : LET id == Calls[i].id IN
            IF id \in st.direct \cup st.rejected \/ ~Participates(r, Calls[i])
            THEN Occurrences(st, id) = 0
            ELSE Occurrences(st, id) = 1

\* nothing remains pending after a flush
NothingPending ==
    \A r \in Ranks : LET st == Run(r, prog) IN
        \A i \in DOMAIN st.open : ~st.open[i].live /\ st.open[i].ids = <<>>

\* a fused operation never exceeds the capacity unless it is a single tensor
CapRespected ==
    \A r \in Ranks : LET st == Run(r, prog) IN
        \A i \in DOMAIN st.wire :
            (Len(st.wire[i].ids) > 1 /\ CallOf(st.wire[i].ids[1]).op = "arb")
                => st.wire[i].bytes <= Cap

\* every tensor is reduced within the group that was requested for it
ReducedInRequestedGroup ==
    \A r \in Ranks : LET st == Run(r, prog) IN
        \A i \in DOMAIN st.wire : \A j \in DOMAIN st.wire[i].ids :
            GroupOf(r, CallOf(st.wire[i].ids[j]).g) = GroupOf(r, st.wire[i].g)

\* a fused operation carries one dtype (else torch promotes and the result
\* dtype differs from the unbucketed one)
OneDtypePerWireOp ==
    \A r \in Ranks : LET st == Run(r, prog) IN
        \A i \in DOMAIN st.wire : Cardinality(st.wire[i].dts) = 1

\* all members of a group see the same sequence of operations on it
WireOn(r, G) == SelectSeq(Run(r, prog).wire, LAMBDA w : GroupOf(r, w.g) = G)
WireMatches ==
    \A r1, r2 \in Ranks : \A role \in Roles \cup {"world"} :
        (GroupOf(r1, role) = GroupOf(r2, role)) =>
            LET a == WireOn(r1, GroupOf(r1, role))
                b == WireOn(r2, GroupOf(r2, role))
            IN /\ Len(a) = Len(b)
               /\ \A i \in DOMAIN a : a[i].ids = b[i].ids /\ a[i].bytes = b[i].bytes

Emit == IF prog # <<>>
        THEN PrintT(ToJson([prog |-> prog,
                            wire |-> [r \in 1..4 |-> Run(r - 1, prog).wire],
                            direct |-> Run(0, prog).direct,
                            rejected |-> Run(0, prog).rejected]))
        ELSE TRUE
=============================================================================
