----------------------------- MODULE KfacResume -----------------------------
(***************************************************************************)
(* Resuming from a checkpoint is equivalent to never stopping (C09) as a   *)
(* self-composition of the reference machine.                              *)
(*                                                                         *)
(* The module extends an instance of spec/KfacRef.tla (the MAIN run, which *)
(* saves, crashes and resumes) and instantiates a second copy with renamed *)
(* variables (the TWIN: the uninterrupted run).  Both perform the same     *)
(* training calls.  Save snapshots the twin := main (the state of the      *)
(* uninterrupted run at the checkpoint); the main run may then do further  *)
(* work that a crash loses; Load restores main from the checkpoint while   *)
(* the twin restarts from its snapshot.  From then on both run jointly.    *)
(*                                                                         *)
(* ResumeEq: after a load at which the live second-order data of the       *)
(* uninterrupted run had been computed from the saved factors (with the    *)
(* same damping value), or whose next step recomputes it, every later step *)
(* produces the same gradient TERM in both runs, and the factor terms stay *)
(* equal.  Otherwise the main run's gradient term is Pre(Inv(restored      *)
(* factors, damping at load)) -- which is what KfacRef.Load says and what  *)
(* the replay checks against the real code.                                *)
(***************************************************************************)
EXTENDS KFACREF_INSTANCE

VARIABLES t_steps, t_fv, t_iv, t_fl, t_mini, t_aAcc, t_gAcc, t_aFac, t_gFac,
          t_inv, t_raw, t_pass, t_ckpt, t_raised, t_h,
          cond      \* "none" before any load; then "yes" / "no": equivalence expected

Twin == INSTANCE KFACREF_INSTANCE WITH
    steps <- t_steps, fv <- t_fv, iv <- t_iv, fl <- t_fl, mini <- t_mini,
    aAcc <- t_aAcc, gAcc <- t_gAcc, aFac <- t_aFac, gFac <- t_gFac,
    inv <- t_inv, raw <- t_raw, pass <- t_pass, ckpt <- t_ckpt,
    raised <- t_raised, h <- t_h

tvars == <<t_steps, t_fv, t_iv, t_fl, t_mini, t_aAcc, t_gAcc, t_aFac, t_gFac,
           t_inv, t_raw, t_pass, t_ckpt, t_raised, t_h>>
allvars == <<vars, tvars, cond>>

RInit == Init /\ Twin!Init /\ cond = "none"

\* damping value descriptors denote the same value
SameValue(a, b) ==
    \/ a = b
    \/ (a.kind = "const" /\ b.kind = "const" /\ a.log = b.log)

\* the twin becomes a copy of main (uninterrupted run at the checkpoint)
SnapTwin ==
    /\ t_steps' = steps /\ t_fv' = fv /\ t_iv' = iv /\ t_fl' = fl
    /\ t_mini' = mini /\ t_aAcc' = aAcc /\ t_gAcc' = gAcc
    /\ t_aFac' = aFac /\ t_gFac' = gFac /\ t_inv' = inv
    /\ t_raw' = raw /\ t_pass' = pass
    /\ UNCHANGED <<t_ckpt, t_raised, t_h>>

\* both runs advance together before the checkpoint and after the resume;
\* between the checkpoint and the crash only the main run works (Lost*)
Together == ~ckpt.has \/ cond # "none"
JTrain(n) == Together /\ Train(n) /\ Twin!Train(n) /\ UNCHANGED cond
JEval == Together /\ EvalPass /\ Twin!EvalPass /\ UNCHANGED cond
JStep ==
    /\ Together
    /\ \/ (StepOK /\ Twin!StepOK /\ UNCHANGED cond)
       \/ (StepRaises /\ Twin!StepRaises /\ UNCHANGED cond)
       \/ (StepRaises /\ Twin!StepOK /\ UNCHANGED cond)
       \/ (StepOK /\ Twin!StepRaises /\ UNCHANGED cond)
\* only checkpoints at step boundaries (nothing accumulated, no pending grads)
AtBoundary == raw = <<>> /\ aAcc = <<>> /\ gAcc = <<>> /\ mini = 0
JSave(b) == cond = "none" /\ AtBoundary /\ Save(b) /\ SnapTwin /\ UNCHANGED cond
\* work done after the checkpoint and lost by the crash: main only
Lost(n) == ckpt.has /\ cond = "none" /\ Train(n) /\ UNCHANGED <<tvars, cond>>
LostStep == ckpt.has /\ cond = "none" /\ StepOK /\ UNCHANGED <<tvars, cond>>
\* pass ids name data batches: after the resume both runs see the same future
\* batches, so the twin's counter is aligned with main's
tvarsNoPass == <<t_steps, t_fv, t_iv, t_fl, t_mini, t_aAcc, t_gAcc, t_aFac,
                 t_gFac, t_inv, t_raw, t_ckpt, t_raised, t_h>>
JLoad(b) ==
    /\ cond = "none"       \* one crash / resume per behaviour
    /\ raw = <<>>          \* the crash happens at a step boundary of the main run
    /\ Load(b)
    /\ t_pass' = pass
    /\ UNCHANGED tvarsNoPass
    /\ cond' = IF ( /\ ckpt.inc
                 /\ t_raw = <<>>
                 /\ \/ ~t_inv.has /\ ~ckpt.aFac.has
                    \/ ckpt.steps % IntVal(ckpt.iv, ckpt.steps) = 0
                    \/ /\ b /\ t_inv.has
                       /\ t_inv.A = ckpt.aFac /\ t_inv.G = ckpt.gFac
                       /\ SameValue(t_inv.damp, inv'.damp) )
               THEN "yes" ELSE "no"

RNext ==
    \/ \E n \in Micro : JTrain(n)
    \/ JEval \/ JStep
    \/ \E b \in BOOLEAN : JSave(b)
    \/ \E n \in Micro : Lost(n)
    \/ LostStep
    \/ \E b \in BOOLEAN : JLoad(b)
RSpec == RInit /\ [][RNext]_allvars

rview == <<view, t_steps, t_fv, t_iv, t_fl, t_mini, t_aAcc, t_gAcc, t_aFac,
           t_gFac, t_inv, t_raw, t_pass, cond>>

Last(s) == s[Len(s)]
SameInvValue(a, b) ==
    a.has = b.has /\ (a.has => (a.A = b.A /\ a.G = b.G /\ SameValue(a.damp, b.damp)))

\* the heart of C09: under the condition, resumed == uninterrupted
ResumeEq ==
    (cond = "yes" /\ ~raised /\ ~t_raised) =>
        /\ steps = t_steps
        /\ aFac = t_aFac /\ gFac = t_gFac
        /\ (h # <<>> /\ t_h # <<>> /\ Last(h).act = "step" /\ Last(t_h).act = "step"
            /\ Len(Last(h).x.grad.raw) > 0 /\ Last(h).x.grad.raw = Last(t_h).x.grad.raw)
              => /\ SameInvValue(Last(h).x.grad.inv, Last(t_h).x.grad.inv)
                 /\ SameValue(Last(h).x.grad.dampUse, Last(t_h).x.grad.dampUse)
\* vacuity guards: both outcomes of the condition are reachable (TLC must
\* report these two "invariants" as violated)
NeverYes == cond # "yes"
NeverNo == cond # "no"
\* a resumed run never raises where the uninterrupted one does not
NoNewRaise == (cond = "yes" /\ ~t_raised) => ~raised
=============================================================================
