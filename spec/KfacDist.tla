------------------------------ MODULE KfacDist ------------------------------
(***************************************************************************)
(* The distributed K-FAC protocol of KFACPreconditioner under a KAISA      *)
(* assignment: WHICH collective every rank issues, on WHICH group, from     *)
(* WHICH root, with HOW MANY elements, for every public call of a history  *)
(* (kfac/base_preconditioner.py step / hooks / load_state_dict,            *)
(* kfac/layers/{base,eigen,inverse}.py, kfac/distributed.py bucketing).    *)
(*                                                                         *)
(* A case fixes the world, the layers (factor sizes), the assignment facts *)
(* (inverse workers, gradient-worker column per layer, receiver row per    *)
(* rank), the configuration and a history whose per-call facts (how many   *)
(* factor-update events, factor step?, refresh?, inverses recomputed on    *)
(* load?) come from a behaviour of spec/KfacRef.tla.  Prog(c, r) derives   *)
(* the sequence of K-FAC-owned collectives rank r issues.                  *)
(*                                                                         *)
(* The placement / communication clauses of C13 are predicates over ANY    *)
(* per-rank issue sequences, so they are evaluated both on the derived     *)
(* programs (design level) and on the sequences recorded from the real     *)
(* code (c.trace); Conforms compares the two.                              *)
(*                                                                         *)
(* op = [kind, grp (set of ranks), root (-1 = none), numel, dt ("f"|"i"|   *)
(*       "g": factor / inverse / gradient dtype class), at (history index)]*)
(***************************************************************************)
EXTENDS Naturals, Integers, Sequences, FiniteSets, TLC, Json

\* BEGIN-CONSTANTS
CONSTANTS Cases   \* sequence of case records (see harness/dist.py)
\* END-CONSTANTS

VARIABLE ci
Init == ci = 1
Next == ci < Len(Cases) /\ ci' = ci + 1
Spec == Init /\ [][Next]_ci
C == Cases[ci]

World(c) == 0..(c.W - 1)
NL(c) == Len(c.layers)
Rev(c) == [i \in 1..NL(c) |-> NL(c) + 1 - i]          \* reversed layer order
Fwd(c) == [i \in 1..NL(c) |-> i]

Tri(n) == (n * (n + 1)) \div 2
FactorElems(c, n) == IF c.sym THEN Tri(n) ELSE n * n
El(c) == c.fbytes                                      \* bytes per factor element

Op(kind, grp, root, numel, dt, at) ==
    [kind |-> kind, grp |-> grp, root |-> root, numel |-> numel, dt |-> dt,
     at |-> at]

(* ---- factor reductions (world group), with bucketing ------------------- *)
\* the reduce calls of one update event in hook mode: A in forward order
\* (forward pre-hooks), then G in reverse order (backward hooks)
HookCalls(c) ==
    [i \in 1..NL(c) |-> FactorElems(c, c.layers[i].a)] \o
    [i \in 1..NL(c) |-> FactorElems(c, c.layers[NL(c) + 1 - i].g)]
\* the reduce calls at the start of step() when factors are updated there
StepCalls(c) ==
    LET RECURSIVE F(_)
        F(i) == IF i = 0 THEN <<>>
                ELSE <<FactorElems(c, c.layers[i].a),
                       FactorElems(c, c.layers[i].g)>> \o F(i - 1)
    IN F(NL(c))

\* python: if bucket.size + size > cap: send bucket, start a new one
\* state = [pend (elements in the open bucket), n (tensors in it), out (ops)]
RECURSIVE Fill(_, _, _, _)
Fill(c, calls, st, at) ==
    IF calls = <<>> THEN st
    ELSE LET x == Head(calls)
             over == (st.pend + x) * El(c) > c.cap
             st1 == IF over /\ st.n > 0
                    THEN [pend |-> 0, n |-> 0,
                          out |-> Append(st.out, Op("all_reduce", World(c), -1,
                                                    st.pend, "f", at))]
                    ELSE IF over THEN [st EXCEPT !.pend = 0, !.n = 0] ELSE st
         IN Fill(c, Tail(calls), [st1 EXCEPT !.pend = @ + x, !.n = @ + 1], at)
Flush(c, st, at) ==
    IF st.n > 0
    THEN [pend |-> 0, n |-> 0,
          out |-> Append(st.out, Op("all_reduce", World(c), -1, st.pend, "f", at))]
    ELSE st
Direct(c, calls, at) ==
    [i \in DOMAIN calls |-> Op("all_reduce", World(c), -1, calls[i], "f", at)]

(* ---- second-order broadcasts inside the gradient-worker column --------- *)
InvOps(c, r, i, at) ==
    LET l == c.layers[i] IN
    IF ~(c.K > 1 /\ r \in l.col) THEN <<>>
    ELSE IF c.method = "inverse"
    THEN <<Op("broadcast", l.col, l.invA, FactorElems(c, l.a), "i", at),
           Op("broadcast", l.col, l.invG, FactorElems(c, l.g), "i", at)>>
    ELSE IF c.prediv
    THEN <<Op("broadcast", l.col, l.invA, l.a * l.a, "i", at),
           Op("broadcast", l.col, l.invG, l.g * l.g, "i", at),
           Op("broadcast", l.col, l.invG, l.g * l.a, "i", at)>>
    ELSE <<Op("broadcast", l.col, l.invA, l.a * l.a, "i", at),
           Op("broadcast", l.col, l.invA, l.a, "i", at),
           Op("broadcast", l.col, l.invG, l.g * l.g, "i", at),
           Op("broadcast", l.col, l.invG, l.g, "i", at)>>

GradOp(c, r, i, at) ==
    LET l == c.layers[i]
        src == CHOOSE s \in l.col \cap c.row[r + 1] : TRUE
    IN IF c.K < c.W
       THEN <<Op("broadcast", c.row[r + 1], src, l.g * l.a, "g", at)>>
       ELSE <<>>

RECURSIVE InvAll(_, _, _, _, _)
InvAll(c, r, order, k, at) ==     \* InvOps for layers order[k], order[k+1], ...
    IF k > Len(order) THEN <<>>
    ELSE InvOps(c, r, order[k], at) \o InvAll(c, r, order, k + 1, at)
RECURSIVE GradAll(_, _, _, _, _)
GradAll(c, r, order, k, at) ==
    IF k > Len(order) THEN <<>>
    ELSE GradOp(c, r, order[k], at) \o GradAll(c, r, order, k + 1, at)

(* ---- one history operation --------------------------------------------- *)
\* st = bucket state carried between calls; returns [st, ops]
OpProg(c, r, st, h, at) ==
    IF c.W = 1 THEN [st |-> st, ops |-> <<>>]
    ELSE IF h.act = "train"
    THEN IF c.inhook /\ h.events > 0
         THEN LET RECURSIVE Ev(_, _)
                  Ev(s, k) == IF k = 0 THEN s
                              ELSE IF c.bucketed
                                   THEN Ev(Fill(c, HookCalls(c), s, at), k - 1)
                                   ELSE Ev([s EXCEPT !.out = @ \o Direct(c, HookCalls(c), at)], k - 1)
                  s2 == Ev([st EXCEPT !.out = <<>>], h.events)
              IN [st |-> [s2 EXCEPT !.out = <<>>], ops |-> s2.out]
         ELSE [st |-> st, ops |-> <<>>]
    ELSE IF h.act = "step"
    THEN LET s0 == [st EXCEPT !.out = <<>>]
             s1 == IF ~c.inhook /\ h.factorStep
                   THEN IF c.bucketed THEN Fill(c, StepCalls(c), s0, at)
                        ELSE [s0 EXCEPT !.out = @ \o Direct(c, StepCalls(c), at)]
                   ELSE s0
             s2 == Flush(c, s1, at)
             inv == IF h.refresh
                    THEN InvAll(c, r, Rev(c), 1, at) ELSE <<>>
             grads == GradAll(c, r, Rev(c), 1, at)
         IN [st |-> [s2 EXCEPT !.out = <<>>], ops |-> s2.out \o inv \o grads]
    ELSE IF h.act = "load"
    THEN [st |-> [pend |-> 0, n |-> 0, out |-> <<>>],      \* fresh communicator
          ops |-> IF h.hasInv
                  THEN InvAll(c, r, Fwd(c), 1, at) ELSE <<>>]
    ELSE IF h.act = "mem"
    THEN LET s2 == Flush(c, [st EXCEPT !.out = <<>>], at)
         IN [st |-> [s2 EXCEPT !.out = <<>>], ops |-> s2.out]
    ELSE [st |-> st, ops |-> <<>>]        \* eval, save, reset, sched

RECURSIVE ProgRec(_, _, _, _)
ProgRec(c, r, st, k) ==
    IF k > Len(c.hist) THEN <<>>
    ELSE LET x == OpProg(c, r, st, c.hist[k], k)
         IN x.ops \o ProgRec(c, r, x.st, k + 1)
Prog(c, r) == ProgRec(c, r, [pend |-> 0, n |-> 0, out |-> <<>>], 1)

---------------------------------------------------------------------------
(* C13 clauses as predicates over per-rank issue sequences P[r + 1]          *)
Strategy(c) == IF c.K = c.W THEN "COMM_OPT" ELSE IF c.K = 1 THEN "MEM_OPT"
               ELSE "HYBRID_OPT"
Cols(c) == {c.layers[i].col : i \in 1..NL(c)}

InvBcastInWorkerGroups(c, P) ==
    \A r \in World(c) : \A j \in DOMAIN P[r + 1] :
        LET o == P[r + 1][j] IN
        (o.kind = "broadcast" /\ o.dt = "i") =>
            /\ o.grp \in Cols(c)
            /\ r \in o.grp
            /\ \E i \in 1..NL(c) : c.layers[i].col = o.grp
                                   /\ o.root \in {c.layers[i].invA, c.layers[i].invG}
GradBcastInReceiverGroups(c, P) ==
    \A r \in World(c) : \A j \in DOMAIN P[r + 1] :
        LET o == P[r + 1][j] IN
        (o.kind = "broadcast" /\ o.dt = "g") =>
            /\ o.grp = c.row[r + 1]
            /\ o.root \in o.grp
            /\ \E i \in 1..NL(c) : o.root \in c.layers[i].col
NoInvBcastUnderMemOpt(c, P) ==
    Strategy(c) = "MEM_OPT" =>
        \A r \in World(c) : \A j \in DOMAIN P[r + 1] :
            ~(P[r + 1][j].kind = "broadcast" /\ P[r + 1][j].dt = "i")
NoGradBcastUnderCommOpt(c, P) ==
    Strategy(c) = "COMM_OPT" =>
        \A r \in World(c) : \A j \in DOMAIN P[r + 1] :
            ~(P[r + 1][j].kind = "broadcast" /\ P[r + 1][j].dt = "g")
FactorsOnWorldOnly(c, P) ==
    \A r \in World(c) : \A j \in DOMAIN P[r + 1] :
        LET o == P[r + 1][j] IN
        /\ (o.kind = "all_reduce") => (o.grp = World(c) /\ o.dt = "f")
        /\ o.kind \in {"all_reduce", "broadcast"}
NothingWhenWorldIsOne(c, P) == c.W = 1 => \A r \in World(c) : P[r + 1] = <<>>

\* each factor is allreduced exactly once per factor-update event: the
\* elements reduced during history op k equal (events at k) x (all factors,
\* packed under symmetry)
RECURSIVE SumSeq(_)
SumSeq(s) == IF s = <<>> THEN 0 ELSE Head(s) + SumSeq(Tail(s))
AllFactorElems(c) ==
    SumSeq([i \in 1..NL(c) |-> FactorElems(c, c.layers[i].a) + FactorElems(c, c.layers[i].g)])
ReducedBetween(c, P, r, lo, hi) ==
    SumSeq([j \in DOMAIN P[r + 1] |->
              IF P[r + 1][j].kind = "all_reduce" /\ P[r + 1][j].at >= lo
                 /\ P[r + 1][j].at <= hi
              THEN P[r + 1][j].numel ELSE 0])
EventsBetween(c, lo, hi) ==
    SumSeq([k \in DOMAIN c.hist |->
              IF k >= lo /\ k <= hi
              THEN IF c.hist[k].act = "train" /\ c.inhook THEN c.hist[k].events
                   ELSE IF c.hist[k].act = "step" /\ ~c.inhook /\ c.hist[k].factorStep
                        THEN 1 ELSE 0
              ELSE 0])
\* windows end at steps / memory queries (where buckets are flushed)
FlushPoints(c) == {k \in DOMAIN c.hist : c.hist[k].act \in {"step", "mem"}}
FactorAllreducedOncePerUpdate(c, P) ==
    c.W > 1 =>
    \A r \in World(c) : \A hi \in FlushPoints(c) :
        LET prev == {k \in FlushPoints(c) : k < hi}
            lo == IF prev = {} THEN 1
                  ELSE (CHOOSE k \in prev : \A q \in prev : q <= k) + 1
        IN \/ \E k \in lo..hi : c.hist[k].act = "load"   \* buckets dropped
           \/ ReducedBetween(c, P, r, lo, hi)
                 = EventsBetween(c, lo, hi) * AllFactorElems(c)

\* second-order data travels with the element counts of the configuration:
\* n(n+1)/2 per symmetric n x n inverse under symmetry-aware mode, dense
\* eigenvector matrices, eigenvalue vectors, pre-divided products otherwise
AllowedInvSizes(c) ==
    UNION {IF c.method = "inverse"
           THEN {FactorElems(c, c.layers[i].a), FactorElems(c, c.layers[i].g)}
           ELSE IF c.prediv
           THEN {c.layers[i].a * c.layers[i].a, c.layers[i].g * c.layers[i].g,
                 c.layers[i].g * c.layers[i].a}
           ELSE {c.layers[i].a * c.layers[i].a, c.layers[i].g * c.layers[i].g,
                 c.layers[i].a, c.layers[i].g} : i \in 1..NL(c)}
\* the property's clause: under symmetry-aware mode a symmetric n x n matrix
\* travels as n(n+1)/2 elements (second-order data is symmetric only for the
\* inverse method; other methods are constrained by Conforms only)
InvBcastSizes(c, P) ==
    (c.sym /\ c.method = "inverse") =>
    \A r \in World(c) : \A j \in DOMAIN P[r + 1] :
        (P[r + 1][j].kind = "broadcast" /\ P[r + 1][j].dt = "i")
            => P[r + 1][j].numel \in AllowedInvSizes(c)
GradBcastSizes(c, P) ==
    \A r \in World(c) : \A j \in DOMAIN P[r + 1] :
        (P[r + 1][j].kind = "broadcast" /\ P[r + 1][j].dt = "g")
            => \E i \in 1..NL(c) : P[r + 1][j].numel = c.layers[i].g * c.layers[i].a

\* C03 at the level of the K-FAC protocol: all members of a group issue the
\* same sequence of operations on it (kind, root, element count, dtype class)
OnGroup(P, r, grp) ==
    SelectSeq(P[r + 1], LAMBDA o : o.grp = grp)
Strip(s) == [j \in DOMAIN s |-> [kind |-> s[j].kind, root |-> s[j].root,
                                  numel |-> s[j].numel, dt |-> s[j].dt]]
GroupsUsed(c, P) == UNION {{P[r + 1][j].grp : j \in DOMAIN P[r + 1]} : r \in World(c)}
MatchAcrossRanks(c, P) ==
    \A grp \in GroupsUsed(c, P) : \A r1, r2 \in grp :
        Strip(OnGroup(P, r1, grp)) = Strip(OnGroup(P, r2, grp))
MembersOnly(c, P) ==
    \A r \in World(c) : \A j \in DOMAIN P[r + 1] :
        r \in P[r + 1][j].grp /\ (P[r + 1][j].root = -1 \/ P[r + 1][j].root \in P[r + 1][j].grp)

\* executing every collective as a BLOCKING call (a rank proceeds only when
\* all members of the group have reached the same call) runs every rank to
\* the end of its sequence; completing a call only enables more calls, so
\* one greedy run decides it
Ready(c, P, pc, r) ==
    LET o == P[r + 1][pc[r + 1]] IN
    \A q \in o.grp :
        /\ pc[q + 1] <= Len(P[q + 1])
        /\ LET o2 == P[q + 1][pc[q + 1]]
           IN o2.grp = o.grp /\ o2.kind = o.kind /\ o2.root = o.root
              /\ o2.numel = o.numel
RECURSIVE RunsToEnd(_, _, _)
RunsToEnd(c, P, pc) ==
    LET heads == {r \in World(c) : pc[r + 1] <= Len(P[r + 1])} IN
    IF heads = {} THEN TRUE
    ELSE IF \E r \in heads : Ready(c, P, pc, r)
         THEN LET r == CHOOSE x \in heads : Ready(c, P, pc, x)
                  g == P[r + 1][pc[r + 1]].grp
              IN RunsToEnd(c, P, [q \in 1..c.W |->
                            IF (q - 1) \in g THEN pc[q] + 1 ELSE pc[q]])
         ELSE FALSE
NoStallBlocking(c, P) == RunsToEnd(c, P, [q \in 1..c.W |-> 1])

Clauses(c, P) ==
    /\ InvBcastInWorkerGroups(c, P)
    /\ GradBcastInReceiverGroups(c, P)
    /\ NoInvBcastUnderMemOpt(c, P)
    /\ NoGradBcastUnderCommOpt(c, P)
    /\ FactorsOnWorldOnly(c, P)
    /\ NothingWhenWorldIsOne(c, P)
    /\ FactorAllreducedOncePerUpdate(c, P)
    /\ MatchAcrossRanks(c, P)
    /\ MembersOnly(c, P)
    /\ InvBcastSizes(c, P)
    /\ GradBcastSizes(c, P)

Derived(c) == [r \in 1..c.W |-> Prog(c, r - 1)]

\* design level: the derived protocol satisfies the clauses
DesignOK == Clauses(C, Derived(C)) /\ NoStallBlocking(C, Derived(C))
T_NoStallBlocking == NoStallBlocking(C, C.trace)
\* the recorded executions satisfy each clause (one invariant per clause so
\* that TLC names the failing one)
T_InvBcast == InvBcastInWorkerGroups(C, C.trace)
T_GradBcast == GradBcastInReceiverGroups(C, C.trace)
T_NoInvMemOpt == NoInvBcastUnderMemOpt(C, C.trace)
T_NoGradCommOpt == NoGradBcastUnderCommOpt(C, C.trace)
T_FactorsWorld == FactorsOnWorldOnly(C, C.trace)
T_NothingW1 == NothingWhenWorldIsOne(C, C.trace)
T_OncePerUpdate == FactorAllreducedOncePerUpdate(C, C.trace)
T_Match == MatchAcrossRanks(C, C.trace)
T_Members == MembersOnly(C, C.trace)
T_InvSizes == InvBcastSizes(C, C.trace)
T_GradSizes == GradBcastSizes(C, C.trace)
\* conformance: the recorded sequences are exactly the derived ones
Conforms == C.trace = Derived(C)
EmitDerived == PrintT(ToJson([ci |-> ci, derived |-> Derived(C)]))
\* second-order data is held exactly by the gradient workers
HoldersOK ==
    \A k \in DOMAIN C.holders :       \* snapshots after >= 1 step
        \A r \in World(C) : \A i \in 1..NL(C) :
            C.holders[k][r + 1][i] <=> (r \in C.layers[i].col)
=============================================================================
