---------------------------- MODULE KfacAssign ----------------------------
(***************************************************************************)
(* KAISA work assignment (kfac/assignment.py) as pure operators, plus a    *)
(* one-state-per-argument-tuple "behaviour" that lets TLC enumerate the    *)
(* argument space, evaluate the properties C06 / C17 on every tuple and    *)
(* print the function value for the conformance replay                     *)
(* (harness/drivers/c06.py, c17.py compare the real KAISAAssignment with   *)
(* it tuple by tuple).                                                     *)
(*                                                                         *)
(* work   : sequence (dict insertion order) of [name, fs] where fs is a    *)
(*          sequence of [f, c] (factor name, cost)                         *)
(* groups : sequence of worker groups, each a sequence of ranks, in the    *)
(*          order the code hands them to the greedy (CPython set iteration *)
(*          order is not something the specification should know: the      *)
(*          properties are stated for every order and the harness supplies *)
(*          the order the interpreter actually uses as a constant)         *)
(***************************************************************************)
EXTENDS Naturals, Integers, Sequences, FiniteSets, TLC, Json

---------------------------------------------------------------------------
(* generic helpers *)
RECURSIVE SumSeq(_)
SumSeq(s) == IF s = <<>> THEN 0 ELSE Head(s) + SumSeq(Tail(s))

Range(s) == {s[i] : i \in DOMAIN s}
MapSeq(s, Op(_)) == [i \in DOMAIN s |-> Op(s[i])]

MinOfSeq(s) == CHOOSE m \in Range(s) : \A x \in Range(s) : m <= x
MaxOfSet(S) == CHOOSE m \in S : \A x \in S : m >= x
MinOfSet(S) == CHOOSE m \in S : \A x \in S : m <= x
\* python list.index(min(list)): first position holding the minimum
FirstMinIdx(s) == MinOfSet({i \in DOMAIN s : s[i] = MinOfSeq(s)})

\* strings compare like python str for the names we use (single letters and
\* l<digit>): order given explicitly
NameRank(n) ==
    CASE n = "A" -> 1 [] n = "G" -> 2 [] n = "H" -> 3
      [] n = "l1" -> 11 [] n = "l2" -> 12 [] n = "l3" -> 13 [] n = "l4" -> 14
      [] OTHER -> 0

---------------------------------------------------------------------------
(* grid partition *)
Cols(W, k) == LET p == W \div k IN
    {{r \in 0..(W - 1) : r % p = i} : i \in 0..(p - 1)}
Rows(W, k) == LET p == W \div k IN
    {{r \in 0..(W - 1) : r \div p = i} : i \in 0..(k - 1)}

\* the column / row containing rank r (arithmetic form; GridOK checks that they
\* are the members of Cols / Rows containing r)
ColOf(W, k, r) == LET p == W \div k IN {q \in 0..(W - 1) : q % p = r % p}
RowOf(W, k, r) == LET p == W \div k IN {q \in 0..(W - 1) : q \div p = r \div p}

---------------------------------------------------------------------------
(* greedy assignment: KAISAAssignment.greedy_assignment *)
Total(layer) == SumSeq(MapSeq(layer.fs, LAMBDA x : x.c))

\* stable sort, descending by key (python sorted(..., reverse=True) keeps the
\* original order of equal keys)
RECURSIVE InsertDesc(_, _)
InsertDesc(x, s) ==
    IF s = <<>> THEN <<x>>
    ELSE IF Total(Head(s)) >= Total(x)
         THEN <<Head(s)>> \o InsertDesc(x, Tail(s))
         ELSE <<x>> \o s
RECURSIVE StableSortDesc(_)
StableSortDesc(s) ==
    IF s = <<>> THEN <<>>
    ELSE InsertDesc(s[Len(s)], StableSortDesc(SubSeq(s, 1, Len(s) - 1)))

\* factors sorted by (cost, name) descending: names are unique, no ties
FactorKeyGE(a, b) == a.c > b.c \/ (a.c = b.c /\ NameRank(a.f) >= NameRank(b.f))
RECURSIVE InsertF(_, _)
InsertF(x, s) ==
    IF s = <<>> THEN <<x>>
    ELSE IF FactorKeyGE(Head(s), x)
         THEN <<Head(s)>> \o InsertF(x, Tail(s))
         ELSE <<x>> \o s
RECURSIVE SortFactors(_)
SortFactors(s) == IF s = <<>> THEN <<>> ELSE InsertF(Head(s), SortFactors(Tail(s)))

\* place factors fs (already ordered) one by one on the least loaded worker of
\* group g; returns [loads, asg] ; asg is a set of <<factor, worker>>
RECURSIVE PlaceFactors(_, _, _, _)
PlaceFactors(fs, g, loads, asg) ==
    IF fs = <<>> THEN [loads |-> loads, asg |-> asg]
    ELSE LET gl == MapSeq(g, LAMBDA w : loads[w])
             w == g[FirstMinIdx(gl)]
         IN PlaceFactors(Tail(fs), g,
                         [loads EXCEPT ![w] = @ + Head(fs).c],
                         asg \cup {<<Head(fs).f, w>>})

RECURSIVE GreedyRec(_, _, _, _, _)
GreedyRec(layers, groups, colocate, loads, asg) ==
    IF layers = <<>> THEN [loads |-> loads, asg |-> asg]
    ELSE LET layer == Head(layers)
             gloads == MapSeq(groups,
                          LAMBDA g : SumSeq(MapSeq(g, LAMBDA w : loads[w])))
             g == groups[FirstMinIdx(gloads)]
         IN IF colocate
            THEN LET gl == MapSeq(g, LAMBDA w : loads[w])
                     w == g[FirstMinIdx(gl)]
                 IN GreedyRec(Tail(layers), groups, colocate,
                        [loads EXCEPT ![w] = @ + Total(layer)],
                        asg \cup {<<layer.name, x.f, w>> : x \in Range(layer.fs)})
            ELSE LET pf == PlaceFactors(SortFactors(layer.fs), g, loads, {})
                 IN GreedyRec(Tail(layers), groups, colocate, pf.loads,
                        asg \cup {<<layer.name, p[1], p[2]>> : p \in pf.asg})

\* result: [loads : [0..W-1 -> Nat], asg : set of <<layer, factor, worker>>]
Greedy(work, groups, W, colocate) ==
    GreedyRec(StableSortDesc(work), groups, colocate,
              [r \in 0..(W - 1) |-> 0], {})

InvWorker(res, l, f) == (CHOOSE t \in res.asg : t[1] = l /\ t[2] = f)[3]

---------------------------------------------------------------------------
(* per-rank views of a KAISA assignment (KAISAAssignment query methods) *)
LayerWorkers(res, l) == {t[3] : t \in {u \in res.asg : u[1] = l}}
\* the code takes the worker of the layer's LAST factor to find the group
LastFactorWorker(res, layer) == InvWorker(res, layer.name, layer.fs[Len(layer.fs)].f)
GradWorkerCol(W, k, res, layer) == ColOf(W, k, LastFactorWorker(res, layer))
IsGradWorker(W, k, res, layer, r) == r \in GradWorkerCol(W, k, res, layer)
SrcSet(W, k, res, layer, r) == GradWorkerCol(W, k, res, layer) \cap RowOf(W, k, r)
BroadcastGradients(W, k) == k < W
BroadcastInverses(W, k) == k > 1

---------------------------------------------------------------------------
(* properties: C17 (greedy) *)
AllFactors(work) == UNION {{<<work[i].name, work[i].fs[j].f>> :
                              j \in DOMAIN work[i].fs} : i \in DOMAIN work}
GComplete(work, groups, res) ==
    /\ {<<t[1], t[2]>> : t \in res.asg} = AllFactors(work)
    /\ Cardinality(res.asg) = Cardinality(AllFactors(work))
    /\ \A t \in res.asg : \E i \in DOMAIN groups : t[3] \in Range(groups[i])
GConfined(work, groups, colocate, res) ==
    \A i \in DOMAIN work :
        /\ \E gi \in DOMAIN groups :
              LayerWorkers(res, work[i].name) \subseteq Range(groups[gi])
        /\ colocate => Cardinality(LayerWorkers(res, work[i].name)) = 1
GroupLoad(res, g) == SumSeq(MapSeq(g, LAMBDA w : res.loads[w]))
MaxLayer(work) == IF work = <<>> THEN 0 ELSE MaxOfSet({Total(work[i]) : i \in DOMAIN work})
MaxItem(work, colocate) ==
    IF colocate THEN MaxLayer(work)
    ELSE IF work = <<>> THEN 0
    ELSE MaxOfSet({0} \cup UNION {{work[i].fs[j].c : j \in DOMAIN work[i].fs} :
                                      i \in DOMAIN work})
GBalanced(work, groups, colocate, res) ==
    /\ \A g1, g2 \in Range(groups) :
          GroupLoad(res, g1) - GroupLoad(res, g2) <= MaxLayer(work)
    /\ \A g \in Range(groups) : \A w1, w2 \in Range(g) :
          res.loads[w1] - res.loads[w2] <= MaxItem(work, colocate)
GLoadsConsistent(work, res, W) ==
    \A w \in 0..(W - 1) :
        res.loads[w] = SumSeq(MapSeq(work, LAMBDA layer :
             SumSeq(MapSeq(layer.fs, LAMBDA x :
                 IF <<layer.name, x.f, w>> \in res.asg THEN x.c ELSE 0))))

(* properties: C06 (grid + views) *)
IsPartition(P, U) ==
    /\ UNION P = U
    /\ \A a, b \in P : a # b => a \cap b = {}
GridOK(W, k) ==
    /\ IsPartition(Cols(W, k), 0..(W - 1))
    /\ IsPartition(Rows(W, k), 0..(W - 1))
    /\ \A c \in Cols(W, k) : Cardinality(c) = k
    /\ \A c \in Rows(W, k) : Cardinality(c) = W \div k
    /\ Cardinality(Cols(W, k)) = W \div k
    /\ Cardinality(Rows(W, k)) = k
    /\ \A c \in Cols(W, k) : \A rw \in Rows(W, k) : Cardinality(c \cap rw) = 1
    /\ \A r \in 0..(W - 1) : /\ ColOf(W, k, r) \in Cols(W, k) /\ r \in ColOf(W, k, r)
                              /\ RowOf(W, k, r) \in Rows(W, k) /\ r \in RowOf(W, k, r)
ViewsOK(W, k, work, res) ==
    \A i \in DOMAIN work :
        LET layer == work[i]
            col == GradWorkerCol(W, k, res, layer) IN
        /\ LayerWorkers(res, layer.name) \subseteq col
        /\ \A r \in 0..(W - 1) :
              LET ss == col \cap RowOf(W, k, r) IN
              /\ Cardinality(ss) = 1
              /\ LET s == CHOOSE x \in ss : TRUE IN
                   /\ s \in col
                   /\ s \in RowOf(W, k, r)
                   /\ (s = r) <=> (r \in col)
FlagsOK(W, k) ==
    /\ BroadcastGradients(W, k) <=> (k # W)          \* not COMM-OPT
    /\ BroadcastInverses(W, k) <=> (k # 1)           \* not MEM-OPT

---------------------------------------------------------------------------
(* the enumeration "behaviour": one state per argument tuple *)
\* BEGIN-CONSTANTS
CONSTANTS
    Mode,        \* "kaisa" | "greedy" | "wide"
    MaxW,        \* world sizes 1..MaxW
    MaxL,        \* up to MaxL layers
    Costs,       \* set of factor costs
    NF,          \* set of factor counts per layer (greedy mode; kaisa uses {2})
    KaisaOrders  \* [<<W, k>> -> set of group orders]: the order(s) in which
                 \* the interpreter hands the column groups to the greedy
                 \* (supplied by the harness from the real set iteration),
                 \* always together with the ascending order
\* END-CONSTANTS

LayerNames == <<"l1", "l2", "l3", "l4">>
FactorNames == <<"A", "G", "H">>
Divisors(W) == {k \in 1..W : W % k = 0}

AscSeq(S) == \* ascending sequence of a finite set of naturals
    LET RECURSIVE F(_)
        F(T) == IF T = {} THEN <<>> ELSE <<MinOfSet(T)>> \o F(T \ {MinOfSet(T)})
    IN F(S)
AscGroups(P) == \* groups ordered by their minimum, members ascending
    LET RECURSIVE F(_)
        F(Q) == IF Q = {} THEN <<>>
                ELSE LET g == CHOOSE x \in Q : \A y \in Q : MinOfSet(x) <= MinOfSet(y)
                     IN <<AscSeq(g)>> \o F(Q \ {g})
    IN F(P)
OrdersOf(x) == KaisaOrders[x] \cup {AscGroups(Cols(x[1], x[2]))}

\* worker groups for the plain greedy: every labelling of the ranks with a
\* group number (0 = rank not used); empty groups dropped; members ascending
\* or descending
MkGroups(f, rev, W, G) ==
    LET gs == [g \in 1..G |-> {r \in 0..(W - 1) : f[r] = g}]
        ne == SelectSeq(gs, LAMBDA S : S # {})
    IN [i \in DOMAIN ne |->
          IF rev THEN LET a == AscSeq(ne[i]) IN
                      [j \in DOMAIN a |-> a[Len(a) + 1 - j]]
          ELSE AscSeq(ne[i])]

\* wide: large worlds, two fixed cost patterns (grid structure / acceptance)
WidePattern(i) ==
    IF i = 1
    THEN <<[name |-> "l1", fs |-> <<[f |-> "A", c |-> 3], [f |-> "G", c |-> 1]>>],
           [name |-> "l2", fs |-> <<[f |-> "A", c |-> 2], [f |-> "G", c |-> 2]>>],
           [name |-> "l3", fs |-> <<[f |-> "A", c |-> 0], [f |-> "G", c |-> 5]>>]>>
    ELSE <<[name |-> "l1", fs |-> <<[f |-> "A", c |-> 1], [f |-> "G", c |-> 1]>>]>>

VARIABLES t, res    \* argument tuple, and Greedy's value on it

\* The argument space is generated as a behaviour: Init fixes world, groups and
\* co-location, every AddLayer step appends one layer with some costs, so the
\* reachable states are exactly the argument tuples (work = dict in insertion
\* order) and TLC's breadth-first search enumerates them.
InitT ==
    CASE Mode = "kaisa" ->
           \E x \in {y \in DOMAIN KaisaOrders : y[1] <= MaxW} :
           \E c \in BOOLEAN : \E o \in OrdersOf(x) :
              t = [W |-> x[1], k |-> x[2], colocate |-> c, groups |-> o,
                   work |-> <<>>, tag |-> "kaisa"]
      [] Mode = "greedy" ->
           \E f \in [0..(MaxW - 1) -> 0..3] : \E rev \in BOOLEAN : \E c \in BOOLEAN :
              /\ MkGroups(f, rev, MaxW, 3) # <<>>
              /\ t = [W |-> MaxW, k |-> 0, colocate |-> c,
                      groups |-> MkGroups(f, rev, MaxW, 3),
                      work |-> <<>>, tag |-> "greedy"]
      [] Mode = "wide" ->
           \E x \in DOMAIN KaisaOrders : \E c \in BOOLEAN : \E i \in 1..2 :
           \E o \in OrdersOf(x) :
              t = [W |-> x[1], k |-> x[2], colocate |-> c, groups |-> o,
                   work |-> WidePattern(i), tag |-> "kaisa"]

Res(x) == Greedy(x.work, x.groups, x.W, x.colocate)
Init == InitT /\ res = Res(t)

FactorCounts == IF Mode = "greedy" THEN NF ELSE {2}

AddLayer ==
    /\ Mode # "wide"
    /\ Len(t.work) < MaxL
    /\ \E nf \in FactorCounts : \E cs \in [1..nf -> Costs] :
          t' = [t EXCEPT !.work = Append(@,
                  [name |-> LayerNames[Len(t.work) + 1],
                   fs |-> [j \in 1..nf |-> [f |-> FactorNames[j], c |-> cs[j]]]])]
    /\ res' = Res(t')

Next == AddLayer
Spec == Init /\ [][Next]_<<t, res>>

InvGreedy ==
    LET r == res IN
    /\ GComplete(t.work, t.groups, r)
    /\ GConfined(t.work, t.groups, t.colocate, r)
    /\ GBalanced(t.work, t.groups, t.colocate, r)
    /\ GLoadsConsistent(t.work, r, t.W)
InvKaisa ==
    (t.tag = "kaisa") =>
        LET r == res IN
        /\ GridOK(t.W, t.k)
        /\ Range(MapSeq(t.groups, Range)) = Cols(t.W, t.k)
        /\ ViewsOK(t.W, t.k, t.work, r)
        /\ FlagsOK(t.W, t.k)

\* emission for the conformance replay (evaluated once per distinct state)
Emit ==
    LET r == res IN
    PrintT(ToJson([t |-> t,
                   asg |-> [i \in DOMAIN t.work |->
                              [j \in DOMAIN t.work[i].fs |->
                                 InvWorker(r, t.work[i].name, t.work[i].fs[j].f)]],
                   loads |-> [w \in 1..t.W |-> r.loads[w - 1]],
                   src |-> IF t.tag = "kaisa"
                           THEN [i \in DOMAIN t.work |->
                                   LET col == GradWorkerCol(t.W, t.k, r, t.work[i]) IN
                                   [w \in 1..t.W |->
                                      CHOOSE x \in col \cap RowOf(t.W, t.k, w - 1) : TRUE]]
                           ELSE <<>>,
                   gw |-> IF t.tag = "kaisa"
                          THEN [i \in DOMAIN t.work |->
                                  LET col == GradWorkerCol(t.W, t.k, r, t.work[i]) IN
                                  [w \in 1..t.W |-> (w - 1) \in col]]
                          ELSE <<>>]))
=============================================================================
