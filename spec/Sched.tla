------------------------------- MODULE Sched -------------------------------
(***************************************************************************)
(* LambdaParamScheduler (kfac/scheduler.py) and the exponential-decay      *)
(* averaging schedule (kfac/hyperparams.py).                               *)
(*                                                                         *)
(* Six parameters; a subset is scheduled, each with its OWN multiplicative *)
(* factor function of the step (distinct functions make cross-wiring       *)
(* visible); factors are dyadic rationals <<num, den>> so that the float   *)
(* arithmetic of the implementation is exact and can be compared exactly.  *)
(* Parameters given as functions cannot be scheduled: the constructor must *)
(* refuse.                                                                 *)
(***************************************************************************)
EXTENDS Naturals, Integers, Sequences, FiniteSets, TLC, Json

\* BEGIN-CONSTANTS
CONSTANTS
    MaxDepth,
    Args,        \* explicit step arguments; -1 = none given
    MaxK, Caps,  \* exponential decay: steps 0..MaxK, caps as <<num, den>>
    InitMode     \* "frac": fractional initial values of the float parameters;
                 \* "int": integral ones (the harness then passes python ints
                 \* for the float parameters and python floats for the two
                 \* intervals: the arithmetic must not depend on the type)
\* END-CONSTANTS

Params == <<"factor_update_steps", "inv_update_steps", "damping",
            "factor_decay", "kl_clip", "lr">>
PSet == {Params[i] : i \in DOMAIN Params}
IntParams == {"factor_update_steps", "inv_update_steps"}

\* the factor function attached to each parameter
Factor(p, s) ==
    CASE p = "factor_update_steps" -> IF s >= 1 THEN <<2, 1>> ELSE <<1, 1>>
      [] p = "inv_update_steps"    -> IF s % 2 = 0 THEN <<3, 2>> ELSE <<2, 1>>
      [] p = "damping"             -> <<1, 2>>
      [] p = "factor_decay"        -> IF s % 2 = 0 THEN <<1, 1>> ELSE <<1, 2>>
      [] p = "kl_clip"             -> IF s < 2 THEN <<1, 4>> ELSE <<2, 1>>
      [] p = "lr"                  -> <<3, 2>>

\* initial values (dyadic): ints for the intervals
Init0(p) ==
    IF InitMode = "int" THEN
    CASE p = "factor_update_steps" -> <<2, 1>>
      [] p = "inv_update_steps"    -> <<3, 1>>
      [] p = "damping"             -> <<1, 1>>
      [] p = "factor_decay"        -> <<1, 1>>
      [] p = "kl_clip"             -> <<2, 1>>
      [] p = "lr"                  -> <<1, 1>>
    ELSE
    CASE p = "factor_update_steps" -> <<2, 1>>
      [] p = "inv_update_steps"    -> <<3, 1>>
      [] p = "damping"             -> <<1, 16>>
      [] p = "factor_decay"        -> <<1, 2>>
      [] p = "kl_clip"             -> <<1, 1024>>
      [] p = "lr"                  -> <<1, 8>>

RECURSIVE Gcd(_, _)
Gcd(a, b) == IF b = 0 THEN a ELSE Gcd(b, a % b)
Norm(q) == LET g == Gcd(q[1], q[2]) IN <<q[1] \div g, q[2] \div g>>
Mul(a, b) == Norm(<<a[1] * b[1], a[2] * b[2]>>)
Trunc(q) == <<q[1] \div q[2], 1>>           \* int(): values are positive

VARIABLES steps, val, scheduled, fnparams, fnkind, h
vars == <<steps, val, scheduled, fnparams, fnkind, h>>

\* HOW a parameter that "is already a function" is given.  The preconditioner
\* evaluates every callable as a schedule, so the scheduler must refuse every
\* kind -- Refused does not depend on fnkind.  The kind only matters when the
\* constructor has something to refuse, so it varies only there.
FnKinds == {"lambda", "partial", "object", "method"}

Init ==
    /\ steps = 0
    /\ val = [p \in PSet |-> Init0(p)]
    /\ scheduled \in SUBSET PSet
    /\ fnparams \in {{}, {"damping"}, {"lr", "inv_update_steps"}}
    /\ fnkind \in (IF scheduled \cap fnparams # {} THEN FnKinds
                   ELSE {"lambda"})
    /\ h = <<>>

Refused == scheduled \cap fnparams # {}

PStep ==        \* preconditioner.step(): the step count grows by one
    /\ ~Refused /\ Len(h) < MaxDepth
    /\ steps' = steps + 1
    /\ UNCHANGED <<val, scheduled, fnparams, fnkind>>
    /\ h' = Append(h, [act |-> "step", arg |-> 0, steps |-> steps',
                       val |-> val])

SchedStep(arg) ==
    /\ ~Refused /\ Len(h) < MaxDepth /\ scheduled # {}
    /\ LET a == IF arg = -1 THEN steps ELSE arg IN
       val' = [p \in PSet |->
                 IF p \in scheduled
                 THEN IF p \in IntParams THEN Trunc(Mul(val[p], Factor(p, a)))
                      ELSE Mul(val[p], Factor(p, a))
                 ELSE val[p]]
    /\ \A p \in IntParams : val'[p][1] > 0      \* intervals stay positive
    /\ UNCHANGED <<steps, scheduled, fnparams, fnkind>>
    /\ h' = Append(h, [act |-> "sched", arg |-> arg, steps |-> steps,
                       val |-> val'])

\* the preconditioner's constants are set from OUTSIDE the scheduler (a
\* checkpoint restored with load_state_dict after the scheduler was built):
\* later scheduler steps multiply the CURRENT values
Restored(p) ==
    CASE p = "factor_update_steps" -> <<4, 1>>
      [] p = "inv_update_steps"    -> <<5, 1>>
      [] p = "damping"             -> <<1, 4>>
      [] p = "factor_decay"        -> <<1, 4>>
      [] p = "kl_clip"             -> <<1, 64>>
      [] p = "lr"                  -> <<1, 2>>
Restore ==
    /\ ~Refused /\ Len(h) < MaxDepth
    /\ ~\E i \in DOMAIN h : h[i].act = "restore"      \* once per behaviour
    /\ steps' = 7
    /\ val' = [p \in PSet |-> IF p \in fnparams THEN val[p] ELSE Restored(p)]
    /\ UNCHANGED <<scheduled, fnparams, fnkind>>
    /\ h' = Append(h, [act |-> "restore", arg |-> 0, steps |-> steps',
                       val |-> val'])

Next == PStep \/ Restore \/ \E a \in Args : SchedStep(a)
Spec == Init /\ [][Next]_vars
view == <<steps, val, scheduled, fnparams, fnkind>>

(* properties *)
UnscheduledUnchanged ==
    [][~Restore => \A p \in PSet \ scheduled : val'[p] = val[p]]_vars
IntervalsAreInts == \A p \in IntParams : val[p][2] = 1 /\ val[p][1] >= 1
OnlySchedMoves == [][(steps' = steps + 1 /\ ~Restore) => val' = val]_vars
\* a scheduler step after a restore starts from the restored values
SchedFromCurrent ==
    [][\A a \in Args : SchedStep(a) =>
         \A p \in scheduled \ IntParams :
             val'[p] = Mul(val[p], Factor(p, IF a = -1 THEN steps ELSE a))]_vars
FnParamsNeverScheduled == ~Refused => scheduled \cap fnparams = {}

(* exponential decay schedule: min(1 - 1/max(k,1), cap) *)
Less(a, b) == a[1] * b[2] < b[1] * a[2]
LessEq(a, b) == a[1] * b[2] <= b[1] * a[2]
MinQ(a, b) == IF LessEq(a, b) THEN a ELSE b
ExpDecay(k, cap) == LET m == IF k >= 1 THEN k ELSE 1
                    IN MinQ(<<m - 1, m>>, cap)
ExpDecayOK ==
    \A cap \in Caps : \A k \in 0..MaxK :
        /\ LessEq(<<0, 1>>, ExpDecay(k, cap))
        /\ LessEq(ExpDecay(k, cap), cap)
        /\ k < MaxK => LessEq(ExpDecay(k, cap), ExpDecay(k + 1, cap))

EmitDone ==
    IF Refused \/ Len(h) >= MaxDepth
    THEN PrintT(ToJson([scheduled |-> scheduled, fn |-> fnparams,
                        fnkind |-> fnkind,
                        refused |-> Refused, h |-> h])) /\ FALSE
    ELSE TRUE
EmitExp == PrintT(ToJson([exp |-> [cap \in Caps |->
                 [k \in 1..(MaxK + 1) |-> ExpDecay(k - 1, cap)]]]))
=============================================================================
