----------------------------- MODULE Register -----------------------------
(***************************************************************************)
(* Which modules of a model are registered with K-FAC                      *)
(* (kfac/layers/register.py: get_flattened_modules, any_match,             *)
(* requires_grad, get_module_helper, register_modules).                    *)
(*                                                                         *)
(* A model is given by its leaves in the order they were added:            *)
(*   [path  : sequence of child names from the root (<<>> = the root       *)
(*            itself is the leaf),                                          *)
(*    kind  : "linear" | "conv" | "linsub" (subclass of Linear) | "linx"   *)
(*            (subclass of Linear with an EXTRA parameter besides weight   *)
(*            and bias) | "bn"                                             *)
(*            (unsupported leaf with parameters and buffers) | "act"       *)
(*            (no parameters) | "empty" (container without children),      *)
(*    frozen: "none" | "part" | "all" | "extra" (only the extra parameter  *)
(*            of a "linx" leaf is frozen)  (requires_grad of its parameters), *)
(*    share : 0, or the index of an earlier leaf whose INSTANCE this is]   *)
(* Containers are implied by the paths.  Qualified names join the path     *)
(* with ".".  Traversal (torch named_modules) is depth first, children in  *)
(* insertion order, every instance once (under its first name).            *)
(*                                                                         *)
(* Skip patterns are regular expressions used with SEARCH semantics on the *)
(* qualified name and on the class name.  The family modelled: a literal   *)
(* of characters where "." matches any one character, optionally anchored  *)
(* at the start ("^lit") or at the end ("lit$").                           *)
(***************************************************************************)
EXTENDS Naturals, Sequences, FiniteSets, TLC, Json

\* BEGIN-CONSTANTS
CONSTANTS
    Segs,       \* child names, e.g. {"a", "b"}
    SegTable,   \* [Segs -> Seq(char)]: the characters of each child name
                \* (names are DATA: "module", "submodule", "0" are what
                \* wrappers such as DistributedDataParallel / Sequential
                \* produce, and a name may contain another name)
    Kinds,      \* kinds a leaf may have
    Frozen,     \* frozen values a leaf may have
    MaxLeaves,
    MaxDepth,   \* max path length
    Patterns,   \* set of patterns [anchor, lit] to choose skip lists from
    MaxPat,     \* max number of patterns in the skip list
    AllowShare, \* BOOLEAN
    Variant     \* "kaisa": kfac/layers/register.py (Linear / Conv2d by type);
                \* "gpt": kfac/gpt_neox/preconditioner.py register_modules
                \*   (ColumnParallelLinear / RowParallelLinear by LOWER-CASED
                \*   class name, patterns searched in the lower-cased name)
\* END-CONSTANTS

ClassName(kind) ==
    IF Variant = "gpt" THEN
    CASE kind = "colpar" -> <<"c", "o", "l", "u", "m", "n", "p", "a", "r", "a", "l", "l", "e", "l", "l", "i", "n", "e", "a", "r">>
      [] kind = "rowpar" -> <<"r", "o", "w", "p", "a", "r", "a", "l", "l", "e", "l", "l", "i", "n", "e", "a", "r">>
      [] kind = "linear" -> <<"l", "i", "n", "e", "a", "r">>
      [] kind = "act"    -> <<"a", "c", "t">>
      [] kind = "empty"  -> <<"b", "o", "x">>
      [] OTHER           -> <<"x">>
    ELSE
    CASE kind = "linear" -> <<"L", "i", "n", "e", "a", "r">>
      [] kind = "conv"   -> <<"C", "o", "n", "v", "2", "d">>
      [] kind = "linsub" -> <<"M", "y", "L", "i", "n">>
      [] kind = "linx"   -> <<"M", "y", "L", "i", "n", "X">>
      [] kind = "bn"     -> <<"B", "N">>
      [] kind = "act"    -> <<"A", "c", "t">>
      [] kind = "empty"  -> <<"B", "o", "x">>
      \* HOMONYMS: classes NAMED "Linear" that are not torch.nn.Linear --
      \* eligibility is decided by the TYPE, the name only feeds the patterns
      [] kind = "homact" -> <<"L", "i", "n", "e", "a", "r">>
      [] kind = "homlin" -> <<"L", "i", "n", "e", "a", "r">>
HasParams(kind) == kind \in {"linear", "conv", "linsub", "linx", "bn", "colpar", "rowpar", "homlin"}
Supported(kind) == IF Variant = "gpt" THEN kind \in {"colpar", "rowpar"}
                   ELSE kind \in {"linear", "conv", "linsub", "linx"}

\* characters of a child name (multi-character names make one sibling's name
\* a string prefix of another's: "a" / "ab")
SegChars(s) == SegTable[s]
\* qualified name as a sequence of characters
RECURSIVE QName(_)
QName(path) ==
    IF path = <<>> THEN <<>>
    ELSE IF Len(path) = 1 THEN SegChars(path[1])
    ELSE SegChars(path[1]) \o <<".">> \o QName(Tail(path))

(* regular expression search for the modelled family.  Every pattern is an *)
(* INDEPENDENT expression: the inline flag "(?i)" of one pattern (pat.ci)  *)
(* makes that pattern, and no other, case-insensitive.                      *)
Lower(ch) ==
    CASE ch = "A" -> "a" [] ch = "B" -> "b" [] ch = "C" -> "c" [] ch = "D" -> "d"
      [] ch = "E" -> "e" [] ch = "I" -> "i" [] ch = "L" -> "l" [] ch = "M" -> "m"
      [] ch = "N" -> "n" [] ch = "O" -> "o" [] ch = "R" -> "r" [] ch = "V" -> "v"
      [] ch = "X" -> "x" [] ch = "Y" -> "y" [] OTHER -> ch
CharMatch(p, c, ci) == p = "." \/ p = c \/ (ci /\ Lower(p) = Lower(c))
MatchAt(lit, s, i, ci) ==  \* lit matches s starting at position i (1-based)
    /\ i + Len(lit) - 1 <= Len(s)
    /\ \A j \in 1..Len(lit) : CharMatch(lit[j], s[i + j - 1], ci)
Search(pat, s) ==
    CASE pat.anchor = "none"  -> \E i \in 1..(Len(s) + 1) : MatchAt(pat.lit, s, i, pat.ci)
      [] pat.anchor = "start" -> MatchAt(pat.lit, s, 1, pat.ci)
      [] pat.anchor = "end"   -> Len(s) >= Len(pat.lit)
                                 /\ MatchAt(pat.lit, s, Len(s) - Len(pat.lit) + 1, pat.ci)
AnyMatch(s, pats) == \E i \in DOMAIN pats : Search(pats[i], s)

(* structure *)
IsPrefix(p, q) == Len(p) <= Len(q) /\ SubSeq(q, 1, Len(p)) = p
\* a new leaf may not sit on, below or above an existing leaf
Compatible(leaves, path) ==
    \A i \in DOMAIN leaves :
        ~IsPrefix(leaves[i].path, path) /\ ~IsPrefix(path, leaves[i].path)

\* depth-first order of the leaves: index sequence
\* (children of a container are visited in the order they were first added)
RECURSIVE DFS(_, _, _)
DFS(leaves, idxs, depth) ==
    \* idxs: indices (in insertion order) of leaves below the current node
    IF idxs = <<>> THEN <<>>
    ELSE LET first == idxs[1]
             seg == IF Len(leaves[first].path) >= depth
                    THEN leaves[first].path[depth] ELSE ""
             same == SelectSeq(idxs, LAMBDA i :
                        Len(leaves[i].path) >= depth /\ leaves[i].path[depth] = seg)
             rest == SelectSeq(idxs, LAMBDA i :
                        ~(Len(leaves[i].path) >= depth /\ leaves[i].path[depth] = seg))
         IN IF Len(leaves[first].path) = depth \/ Len(leaves[first].path) < depth
            THEN <<first>> \o DFS(leaves, Tail(idxs), depth)
            ELSE DFS(leaves, same, depth + 1) \o DFS(leaves, rest, depth)

Order(leaves) == DFS(leaves, [i \in 1..Len(leaves) |-> i], 1)

\* the instance behind leaf i (its own index, or the leaf it shares)
Inst(leaves, i) == IF leaves[i].share = 0 THEN i ELSE leaves[i].share

\* first position in DFS order at which each instance appears
FirstVisit(leaves, ord, p) ==
    \A q \in 1..(p - 1) : Inst(leaves, ord[q]) # Inst(leaves, ord[p])

Eligible(leaves, i, pats) ==
    LET inst == leaves[Inst(leaves, i)] IN
    /\ Supported(inst.kind)
    /\ inst.frozen = "none"
    /\ ~AnyMatch(QName(leaves[i].path), pats)
    /\ ~AnyMatch(ClassName(inst.kind), pats)

\* the registered layers, in registration order: <<leaf index>>
Registered(leaves, pats) ==
    LET ord == Order(leaves) IN
    SelectSeq([p \in 1..Len(ord) |->
                 IF FirstVisit(leaves, ord, p) /\ Eligible(leaves, ord[p], pats)
                 THEN ord[p] ELSE 0],
              LAMBDA x : x # 0)

---------------------------------------------------------------------------
VARIABLES leaves, pats, done
vars == <<leaves, pats, done>>

Init == leaves = <<>> /\ pats = <<>> /\ done = FALSE

Paths == UNION {[1..d -> Segs] : d \in 0..MaxDepth}

AddLeaf ==
    /\ ~done /\ Len(leaves) < MaxLeaves
    /\ \E path \in Paths : \E kind \in Kinds : \E fr \in Frozen :
          /\ Compatible(leaves, path)
          /\ (fr # "none") => HasParams(kind)
          /\ (fr = "extra") => kind = "linx"
          /\ leaves' = Append(leaves, [path |-> path, kind |-> kind,
                                       frozen |-> fr, share |-> 0])
    /\ UNCHANGED <<pats, done>>

AddShared ==      \* the same INSTANCE as an earlier leaf under another path
    /\ AllowShare /\ ~done /\ Len(leaves) < MaxLeaves /\ Len(leaves) >= 1
    /\ \E path \in Paths : \E i \in DOMAIN leaves :
          /\ leaves[i].share = 0
          /\ path # <<>> /\ leaves[i].path # <<>>
          /\ Compatible(leaves, path)
          /\ leaves' = Append(leaves, [path |-> path, kind |-> leaves[i].kind,
                                       frozen |-> leaves[i].frozen, share |-> i])
    /\ UNCHANGED <<pats, done>>

AddPattern ==
    /\ ~done /\ Len(leaves) >= 1 /\ Len(pats) < MaxPat
    /\ \E p \in Patterns : pats' = Append(pats, p)
    /\ UNCHANGED <<leaves, done>>

Next == AddLeaf \/ AddShared \/ AddPattern
Spec == Init /\ [][Next]_vars

---------------------------------------------------------------------------
(* Properties of the registered set (C16)                                   *)
Reg == Registered(leaves, pats)
RegSet == {Reg[i] : i \in DOMAIN Reg}

\* every instance at most once
OncePerInstance ==
    \A i, j \in DOMAIN Reg :
        i # j => Inst(leaves, Reg[i]) # Inst(leaves, Reg[j])

\* exactly the eligible leaves (an instance counts under its first name)
ExactlyEligible ==
    \A i \in DOMAIN leaves :
        (i \in RegSet) <=>
            /\ Eligible(leaves, i, pats)
            /\ LET ord == Order(leaves)
                   p == CHOOSE q \in DOMAIN ord : ord[q] = i
               IN FirstVisit(leaves, ord, p)

\* registered names are unique
UniqueNames ==
    \A i, j \in DOMAIN Reg : i # j => leaves[Reg[i]].path # leaves[Reg[j]].path

\* the traversal visits every leaf exactly once
OrderIsPermutation ==
    LET ord == Order(leaves) IN
    /\ Len(ord) = Len(leaves)
    /\ {ord[i] : i \in DOMAIN ord} = DOMAIN leaves

\* more patterns never register more
Monotone ==
    [][(leaves' = leaves /\ Len(pats') > Len(pats)) =>
         {Registered(leaves', pats')[i] : i \in DOMAIN Registered(leaves', pats')}
             \subseteq RegSet]_vars

Emit ==
    IF Len(leaves) >= 1
    THEN PrintT(ToJson([leaves |-> leaves, pats |-> pats, reg |-> Reg,
                        order |-> Order(leaves)]))
    ELSE TRUE
=============================================================================
