------------------------------- MODULE Triu -------------------------------
(***************************************************************************)
(* Upper-triangle packing of symmetric matrices (kfac/distributed.py       *)
(* get_triu / fill_triu): the packed vector lists the upper triangle in    *)
(* row-major order; unpacking mirrors it into the lower triangle.          *)
(* The behaviour steps n = 1, 2, ... so that TLC checks the index          *)
(* bijection for every n up to the bound and emits PackOrder(n) for the    *)
(* conformance replay.                                                     *)
(***************************************************************************)
EXTENDS Naturals, Sequences, FiniteSets, TLC, Json

\* BEGIN-CONSTANTS
CONSTANTS MaxN
\* END-CONSTANTS

VARIABLE n
Init == n = 1
Next == n < MaxN /\ n' = n + 1
Spec == Init /\ [][Next]_n

Tri(k) == (k * (k + 1)) \div 2

\* position (1-based) of entry <<i, j>>, i <= j, in the packed vector
Pos(k, i, j) == (i - 1) * (k + 1) - Tri(i - 1) + (j - i + 1)
                \* = sum_{t<i} (k - t + 1) + (j - i + 1)

RECURSIVE RowSeq(_, _, _)
RowSeq(k, i, j) == IF j > k THEN <<>> ELSE <<<<i, j>>>> \o RowSeq(k, i, j + 1)
RECURSIVE PackFrom(_, _)
PackFrom(k, i) == IF i > k THEN <<>> ELSE RowSeq(k, i, i) \o PackFrom(k, i + 1)
PackOrder(k) == PackFrom(k, 1)

Min(a, b) == IF a <= b THEN a ELSE b
Max(a, b) == IF a >= b THEN a ELSE b

\* a symmetric matrix with position revealing entries: M[i,j] encodes {i,j}
Sym(k) == [i \in 1..k, j \in 1..k |-> Min(i, j) * (k + 1) + Max(i, j)]
Pack(k, M) == [p \in 1..Tri(k) |-> M[PackOrder(k)[p][1], PackOrder(k)[p][2]]]
Unpack(k, v) == [i \in 1..k, j \in 1..k |-> v[Pos(k, Min(i, j), Max(i, j))]]

(* properties *)
LengthOK == Len(PackOrder(n)) = Tri(n)
Bijection ==
    /\ \A p \in 1..Tri(n) :
          LET e == PackOrder(n)[p] IN e[1] <= e[2] /\ Pos(n, e[1], e[2]) = p
    /\ \A i \in 1..n : \A j \in i..n : PackOrder(n)[Pos(n, i, j)] = <<i, j>>
RoundTrip == Unpack(n, Pack(n, Sym(n))) = Sym(n)
\* a non symmetric matrix is NOT reproduced (the lower triangle is lost):
\* packing is only lossless for symmetric contents
LowerIgnored ==
    n >= 2 =>
      LET A == [i \in 1..n, j \in 1..n |-> i * (n + 1) + j] IN
      Unpack(n, Pack(n, A))[2, 1] = A[1, 2]

Emit == PrintT(ToJson([n |-> n, order |-> PackOrder(n)]))
=============================================================================
