----------------------------- MODULE KfacConfig -----------------------------
(***************************************************************************)
(* The configuration lattice of KFACPreconditioner (kfac/preconditioner.py *)
(* constructor) and what the constructor derives from it: acceptance /     *)
(* rejection, the distribution strategy, effective factor co-location,     *)
(* allreduce method, broadcast flags.  TLC enumerates the lattice; the     *)
(* harness constructs a real preconditioner for every tuple (on every rank *)
(* of a pretended world) and compares; the valid tuples are the            *)
(* configuration space over which C02 / C03 / C13 executions are drawn.    *)
(***************************************************************************)
EXTENDS Naturals, Integers, FiniteSets, TLC, Json

\* BEGIN-CONSTANTS
CONSTANTS
    Worlds,     \* set of world sizes
    Caps        \* set of bucket capacity classes: "neg","zero","tiny","big"
\* END-CONSTANTS

Methods == {"eigen", "inverse"}
Heuristics == {"compute", "memory"}

Configs ==
    [W : Worlds, k : 1..8, colocate : BOOLEAN, method : Methods,
     prediv : BOOLEAN, cap : Caps, sym : BOOLEAN, heuristic : Heuristics]

VARIABLE c
Init == c \in {x \in Configs : x.k <= x.W}
Next == UNCHANGED c
Spec == Init /\ [][Next]_c

(* what the constructor does *)
Rejected(x) ==
    \/ x.cap = "neg"                                      \* bucket cap < 0
    \/ (x.method = "eigen" /\ x.prediv /\ ~x.colocate)    \* prediv needs colocation
    \/ x.W % x.k # 0                                      \* unequal groups
Strategy(x) ==
    IF x.k = x.W THEN "COMM_OPT" ELSE IF x.k = 1 THEN "MEM_OPT" ELSE "HYBRID_OPT"
EffColocate(x) == x.colocate \/ Strategy(x) = "MEM_OPT"   \* forced (warning)
Bucketed(x) == x.cap \in {"tiny", "big"}
BcastGrad(x) == x.k < x.W
BcastInv(x) == x.k > 1
SymmetricComm(x) == x.sym                                 \* all factors symmetric

Derived(x) ==
    [rejected |-> Rejected(x), strategy |-> Strategy(x),
     colocate |-> EffColocate(x), bucketed |-> Bucketed(x),
     bcast_grad |-> BcastGrad(x), bcast_inv |-> BcastInv(x)]

(* sanity of the derivation (design level) *)
StrategyFlags ==
    ~Rejected(c) =>
        /\ (Strategy(c) = "COMM_OPT") <=> ~BcastGrad(c)
        /\ (Strategy(c) = "MEM_OPT" /\ c.W > 1) => ~BcastInv(c)
        /\ (Strategy(c) = "HYBRID_OPT") => (BcastGrad(c) /\ BcastInv(c))
        /\ (c.W = 1) => (~BcastGrad(c) /\ ~BcastInv(c))
MemOptColocated == (~Rejected(c) /\ Strategy(c) = "MEM_OPT") => EffColocate(c)

Emit == PrintT(ToJson([c |-> c, d |-> Derived(c)]))
=============================================================================
