----------------------------- MODULE KfacTrace -----------------------------
(***************************************************************************)
(* Trace validation for KfacRef (direction B): is what a driver did with a *)
(* real KFACPreconditioner -- recorded from outside by harness/tracer.py,  *)
(* one event per public call and one per forward/backward pass, each with  *)
(* the abstract state observed AFTER it -- a behaviour of KfacRef?         *)
(*                                                                         *)
(* Every trace action is a KfacRef action conjoined with the logged        *)
(* observation; nothing is guessed: the only unlogged variables are the    *)
(* symbolic terms, which the KfacRef action itself determines.  A trace is *)
(* accepted when all its events are consumed; TLC's deadlock check reports *)
(* the first event no action explains (the state shows the longest         *)
(* accepted prefix).  KfacRef's temporal properties are evaluated on the   *)
(* accepted behaviour as well.                                             *)
(*                                                                         *)
(* event = [act, arg, raised, ndec, steps, F, I, chA, chG, accA, accG,      *)
(*          accKnown,                                                      *)
(*          hasInv, uniform]                                               *)
(***************************************************************************)
EXTENDS KFACREF_INSTANCE

\* BEGIN-CONSTANTS
CONSTANTS Traces      \* sequence of traces (all of one configuration)
\* END-CONSTANTS

VARIABLES t, l
tvars == <<vars, t, l>>

TInit == Init /\ t \in 1..Len(Traces) /\ l = 1
E == Traces[t][l]
More == l <= Len(Traces[t])

\* the logged observation holds in the successor state
ObsOK ==
    /\ E.uniform                      \* all registered layers behave alike
    /\ steps' = E.steps
    /\ IntVal(fv', steps') = E.F /\ IntVal(iv', steps') = E.I
    /\ (aFac' # aFac) <=> E.chA
    /\ (gFac' # gFac) <=> E.chG
    /\ E.accKnown => ((aAcc' # <<>>) <=> E.accA)
    /\ E.accKnown => ((gAcc' # <<>>) <=> E.accG)
    /\ inv'.has <=> E.hasInv

TTrain   == E.act = "train"   /\ ~E.raised /\ Train(1) /\ ObsOK /\ E.ndec = 0
TFwdOnly == E.act = "fwdonly" /\ ~E.raised /\ FwdOnly /\ ObsOK /\ E.ndec = 0
TEval    == E.act = "eval"    /\ ~E.raised /\ EvalPass /\ ObsOK /\ E.ndec = 0
TReset   == E.act = "reset"   /\ ~E.raised /\ (ResetBatch \/ ResetMid)
                              /\ ObsOK /\ E.ndec = 0
TMem     == E.act = "mem"     /\ ~E.raised /\ MemoryUsage /\ ObsOK /\ E.ndec = 0
TSave    == E.act = "save"    /\ ~E.raised /\ Save(E.arg) /\ ObsOK /\ E.ndec = 0
\* a load goes into a FRESH instance: "changed" is relative to no factor
ObsLoad ==
    /\ E.uniform
    /\ steps' = E.steps
    /\ IntVal(fv', steps') = E.F /\ IntVal(iv', steps') = E.I
    /\ aFac'.has <=> E.chA
    /\ gFac'.has <=> E.chG
    /\ E.accKnown => (~E.accA /\ ~E.accG)
    /\ inv'.has <=> E.hasInv
TLoad    == E.act = "load"    /\ ~E.raised /\ Load(E.arg) /\ ObsLoad
                              /\ ((E.ndec > 0) <=> inv'.has)
TSched   == E.act = "sched"   /\ ~E.raised /\ SchedStep(E.arg) /\ ObsOK
                              /\ E.ndec = 0
TStep ==
    /\ E.act = "step"
    /\ \/ /\ ~E.raised /\ StepBody /\ ObsOK
          /\ (E.ndec > 0) <=> Refresh       \* recomputed exactly on refresh steps
       \/ /\ E.raised /\ StepRaisesBody

TNext ==
    \/ /\ More
       /\ (TTrain \/ TFwdOnly \/ TEval \/ TReset \/ TMem \/ TSave \/ TLoad
           \/ TSched \/ TStep)
       /\ l' = l + 1 /\ t' = t
    \/ /\ ~More /\ UNCHANGED tvars          \* accepted: every event consumed

TSpec == TInit /\ [][TNext]_tvars
Accepted == ~More
=============================================================================
