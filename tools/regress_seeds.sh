#!/bin/sh
# tools/regress_seeds.sh [seed dirs...]: for every stored seeded change, apply it to a
# SCRATCH worktree of /repo (never /repo itself), run the quick checks named in its
# meta.json caught_by against that worktree (evidence redirected to a scratch dir) and
# report whether it is still caught. Prints "<seed> CAUGHT|MISSED <check results>".
wt=/tmp/reg_repo_$$; out=/tmp/reg_out_$$
git -C /repo worktree add -q --detach $wt HEAD || exit 2
mkdir -p $out
cd "$(dirname "$(readlink -f "$0")")/.." || exit 2
[ $# -eq 0 ] && set -- seeded/*/
for sd in "$@"; do
  sd=${sd%/}; id=$(basename $sd)
  checks=$(python3 -c "
import json,re,sys
m=json.load(open('$sd/meta.json'))
cb=m.get('caught_by',[]); cb=cb if isinstance(cb,list) else [cb]
ids=[]
for c in cb:
    for x in re.findall(r'C\d\d', str(c)):
        if x not in ids: ids.append(x)
print(' '.join(ids[:2]))")
  git -C $wt checkout -q -- . ; git -C $wt apply $(readlink -f $sd/patch.diff) || { echo "$id APPLY-FAIL"; continue; }
  res=""; caught=MISSED
  for c in $checks; do
    o=$(VERIF_REPO=$wt VERIF_OUT=$out ./check $c --tier quick 2>&1); rc=$?
    n=$(echo "$o" | grep -c '^VIOLATION')
    res="$res $c:rc=$rc:v=$n"
    [ $rc -eq 1 ] && [ $n -gt 0 ] && caught=CAUGHT
  done
  echo "$id $caught$res"
done
git -C $wt checkout -q -- . ; git -C /repo worktree remove --force $wt; rm -rf $out
