"""Self-test of the machinery (DESIGN.md section 9): binding demonstrations and
vacuity guards.  Run:  cd /verif && /venv/bin/python -m tools.selftest

Every item must print PASS.  Nothing here is a property check; it shows that
the specifications are really bound to what is recorded from the code:
corrupting one recorded field or dropping one event makes TLC reject, and the
actions / branches the properties talk about are actually exercised.
"""

from __future__ import annotations

import copy
import sys

sys.path.insert(0, '/verif')
from harness.common import setup_repo_import  # noqa: E402

setup_repo_import()

from harness import dist, kaisa, progs, refreplay, simdist  # noqa: E402
from harness.tlc import run_tlc  # noqa: E402

RESULTS: list[tuple[str, bool, str]] = []


def item(name: str, ok: bool, info: str = '') -> None:
    RESULTS.append((name, ok, info))
    print(('PASS ' if ok else 'FAIL ') + name + (' -- ' + info if info else ''))


def comm_binding() -> None:
    cfg = kaisa.Config(W=2, k=1, bucket_cap_mb=0.0, model='mlp2')
    res = kaisa.run(cfg, [['train', 1], ['step']], simdist.LazyCompletion(0),
                    seed=1)
    base = progs.check_programs(res.programs, res.groups, por='lin', workers=1)
    item('Comm accepts the extracted programs of a real run', base.ok,
         f'{base.distinct} states')
    # corrupt one field: root of a broadcast issued by rank 1
    p = copy.deepcopy(res.programs)
    idx = next(i for i, o in enumerate(p[1])
               if o['t'] == 'I' and o['kind'] == 'broadcast')
    p[1][idx]['root'] = 1 - p[1][idx]['root']
    r = progs.check_programs(p, res.groups, por='lin', workers=1)
    item('Comm rejects a corrupted root', (not r.ok) and r.violated == 'MatchInv',
         str(r.violated))
    p = copy.deepcopy(res.programs)
    idx = next(i for i, o in enumerate(p[0])
               if o['t'] == 'I' and o['kind'] == 'all_reduce')
    p[0][idx]['numel'] += 1
    r = progs.check_programs(p, res.groups, por='lin', workers=1)
    item('Comm rejects a corrupted element count',
         (not r.ok) and r.violated == 'MatchInv', str(r.violated))
    # drop one issue (and its wait) on one rank: the others can never complete
    p = copy.deepcopy(res.programs)
    idx = next(i for i, o in enumerate(p[1])
               if o['t'] == 'I' and o['kind'] == 'broadcast')
    g, sl = p[1][idx]['g'], p[1][idx]['i']
    p[1] = [o for o in p[1] if not (o.get('g') == g and o.get('i') == sl)]
    # renumber later slots of rank 1 on that group
    for o in p[1]:
        if o.get('g') == g and o.get('i', -1) > sl:
            o['i'] -= 1
    r = progs.check_programs(p, res.groups, por='lin', workers=1)
    item('Comm rejects a dropped collective (stall or mismatch)', not r.ok,
         str(r.violated))
    # membership: issue on a group the rank is not in
    p = copy.deepcopy(res.programs)
    groups = dict(res.groups)
    groups[99] = (0,)
    p[1].insert(0, {'t': 'I', 'g': 99, 'i': 0, 'kind': 'all_reduce',
                    'root': None, 'numel': 1, 'dtype': 'float32',
                    'shape': [1], 'sync': False, 'owner': 'kfac'})
    r = progs.check_programs(p, groups, por='lin', workers=1)
    item('Comm rejects use of a foreign group',
         (not r.ok) and r.violated in ('MemberOnly', 'OnlyMembersJoin'),
         str(r.violated))
    # reductions agree with the full exploration on this instance
    full = progs.check_programs(res.programs, res.groups, por=False, workers=4)
    por = progs.check_programs(res.programs, res.groups, por=True, workers=4)
    item('full / POR / linearised Comm configs agree',
         full.ok and por.ok and base.ok,
         f'full {full.distinct}, por {por.distinct}, lin {base.distinct} states')
    live = progs.check_programs(res.programs, res.groups, por=False,
                                liveness=True, workers=2)
    item('Comm Termination under fairness (small instance)', live.ok,
         str(live.violated))


def kfacdist_binding() -> None:
    base = dict(F=1, I=1, accum=1, in_hook=True, model='mlp3',
                param_dtype='float64', inv_dtype='float32')
    cfg1 = kaisa.Config(W=1, k=1, prediv=False, **base)
    hs, _ = refreplay.gen_behaviours(cfg1, ['Train', 'Step'], [1], [-1], 4, 0,
                                     1, exhaustive=True, strict=True)
    h = [x for x in hs if sum(y['act'] == 'step' for y in x) >= 2][0]
    cfg = kaisa.Config(W=4, k=2, method='inverse', prediv=False, symmetry=True,
                       bucket_cap_mb=0.0, **base)
    out = refreplay.replay(cfg, h, 3, simdist.LazyCompletion(1))
    kc = dist.build_case(cfg, h, out)
    r = dist.check_cases([kc], invariants=['DesignOK'] + dist.CLAUSES
                         + ['Conforms'])
    item('KfacDist accepts a real HYBRID execution (clauses + Conforms)', r.ok,
         str(r.violated))
    bad = copy.deepcopy(kc)
    j = next(i for i, o in enumerate(bad['trace'][0]) if o['dt'] == 'i')
    bad['trace'][0][j]['grp'] = set(range(4))
    r = dist.check_cases([bad], invariants=['T_InvBcast'])
    item('KfacDist rejects an inverse broadcast to the whole world', not r.ok)
    bad = copy.deepcopy(kc)
    j = next(i for i, o in enumerate(bad['trace'][0]) if o['kind'] == 'all_reduce')
    del bad['trace'][0][j]
    r = dist.check_cases([bad], invariants=['T_OncePerUpdate'])
    item('KfacDist rejects a dropped factor allreduce', not r.ok)
    bad = copy.deepcopy(kc)
    bad['holders'][0][0][0] = not bad['holders'][0][0][0]
    r = dist.check_cases([bad], invariants=['HoldersOK'])
    item('KfacDist rejects a wrong holder of second-order data', not r.ok)
    bad = copy.deepcopy(kc)
    j = next(i for i, o in enumerate(bad['trace'][1]) if o['dt'] == 'i')
    bad['trace'][1][j]['numel'] += 3
    r = dist.check_cases([bad], invariants=['T_InvSizes'])
    item('KfacDist rejects a dense / wrong-sized second-order transfer',
         not r.ok)


def gptdist_binding() -> None:
    from harness import gptdist, gptrun
    f = dict(F=1, I=2, accum=1, in_hook=True)
    cfg1 = kaisa.Config(W=1, k=1, prediv=False, **f)
    hs, _ = refreplay.gen_behaviours(cfg1, ['Train', 'Step', 'Save', 'Load'],
                                     [1], [-1], 6, 0, 1, exhaustive=True,
                                     strict=True)
    h = [x for x in hs if [y['act'] for y in x][:4] ==
         ['train', 'step', 'save', 'load'] and x[2]['arg']
         and 'step' in [y['act'] for y in x[4:]]
         and not any(y['x'].get('raises') for y in x)][0]
    cfg = kaisa.Config(W=4, k=1, prediv=False, bucket_cap_mb=0.0,
                       gpt={'D': 2, 'M': 2}, **f)
    out = gptrun.replay(cfg, h, 3, simdist.LazyCompletion(3))
    kc = out['kcase']
    r = gptdist.check_cases([kc], invariants=['DesignOK'] + gptdist.CLAUSES
                            + ['Conforms', 'NGConforms'])
    item('GptDist accepts a real D=2 x M=2 execution (clauses + Conforms)',
         r.ok, str(r.violated))
    bad = copy.deepcopy(kc)
    j = next(i for i, o in enumerate(bad['trace'][0])
             if o['kind'] == 'broadcast' and len(o['grp']) == 2
             and o['grp'] == {0, 2})
    bad['trace'][0][j]['root'] = 1
    r = gptdist.check_cases([bad], invariants=['T_GradBcast'])
    item('GptDist rejects a gradient broadcast from a foreign root', not r.ok)
    bad = copy.deepcopy(kc)
    j = next(i for i, o in enumerate(bad['trace'][1])
             if o['kind'] == 'all_gather')
    bad['trace'][1][j]['grp'] = {1, 3}
    r = gptdist.check_cases([bad], invariants=['T_ShardTraffic'])
    item('GptDist rejects a shard gather outside the model-parallel group',
         not r.ok)
    bad = copy.deepcopy(kc)
    j = next(i for i, o in enumerate(bad['trace'][2]) if o['kind'] == 'barrier')
    del bad['trace'][2][j]
    r = gptdist.check_cases([bad], invariants=['T_SaveLoad'])
    item('GptDist rejects a rank that skips a save / load barrier', not r.ok)
    bad = copy.deepcopy(kc)
    j = next(i for i, o in enumerate(bad['trace'][3])
             if o['kind'] == 'all_reduce' and o['cls'] == 'f'
             and len(o['grp']) == 4)
    del bad['trace'][3][j]
    r1 = gptdist.check_cases([bad], invariants=['T_Match'])
    r2 = gptdist.check_cases([bad], invariants=['Conforms'])
    item('GptDist rejects a dropped factor reduction (T_Match, Conforms)',
         (not r1.ok) and (not r2.ok))
    bad = copy.deepcopy(kc)
    bad['ngtrace'][1] = list(reversed(bad['ngtrace'][1]))
    bad['ngtrace'][1][0]['at'], bad['ngtrace'][1][-1]['at'] = 9, 0
    r = gptdist.check_cases([bad], invariants=['T_NGSame'])
    item('GptDist rejects group creation that differs between ranks', not r.ok)


def trace_binding() -> None:
    """Direction B: recorded executions against spec/KfacTrace.tla."""
    from harness import tracecheck
    recs = tracecheck.run_repo_training_loop()
    out = tracecheck.validate(recs, 'st')
    item("KfacTrace accepts the repository's own training loop "
         '(tests/training_test.py: train)',
         not out['rejected'] and out['events'] >= 40,
         f'{out["events"]} events')
    bad = copy.deepcopy(recs)
    k = next(i for i, e in enumerate(bad[0]['events'])
             if e['act'] == 'step' and e['steps'] == 6)
    bad[0]['events'][k]['chA'] = False      # the factor update at step 5
    out = tracecheck.validate(bad, 'st')
    item('KfacTrace rejects a corrupted "factor changed" observation',
         len(out['rejected']) == 1 and out['rejected'][0]['at'] == k + 1,
         str([(r['at'], (r['event'] or {}).get('act')) for r in out['rejected']]))
    bad = copy.deepcopy(recs)
    k = next(i for i, e in enumerate(bad[0]['events'])
             if e['act'] == 'step' and e['steps'] == 11)
    bad[0]['events'][k]['ndec'] = 0          # the refresh at step 10
    out = tracecheck.validate(bad, 'st')
    item('KfacTrace rejects a missing recomputation on a refresh step',
         len(out['rejected']) == 1 and out['rejected'][0]['at'] == k + 1)
    bad = copy.deepcopy(recs)
    k = next(i for i, e in enumerate(bad[0]['events']) if e['act'] == 'step')
    del bad[0]['events'][k]                  # a lost hook: one step unlogged
    out = tracecheck.validate(bad, 'st')
    item('KfacTrace rejects a trace with one step event removed',
         len(out['rejected']) == 1)
    rr = []
    for s in range(4):
        rr += tracecheck.random_driver(7000 + s, 40)
    out = tracecheck.validate(rr, 'st')
    item('KfacTrace accepts random API drivers incl. resumes',
         not out['rejected'] and out['traces'] >= 4,
         f'{out["traces"]} traces, {out["events"]} events')


def kfacref_binding() -> None:
    cfg = kaisa.Config(F=1, I=2, model='mlp2', prediv=False)
    hs, _ = refreplay.gen_behaviours(cfg, ['Train', 'Step'], [1], [-1], 4, 0,
                                     1, exhaustive=True)
    h = [x for x in hs if sum(y['act'] == 'step' for y in x) >= 2][0]
    ok = refreplay.replay(cfg, h, 3)
    item('KfacRef behaviour replays cleanly', not ok['mismatches'])
    bad = copy.deepcopy(h)
    bad[-1]['obs']['steps'] += 1
    r = refreplay.replay(cfg, bad, 3)
    item('replay rejects a corrupted expected step count',
         any(m['cat'] == 'steps' for m in r['mismatches']))
    bad = copy.deepcopy(h)
    k = max(i for i, x in enumerate(bad) if x['act'] == 'step')
    bad[k]['x']['refresh'] = not bad[k]['x']['refresh']
    r = refreplay.replay(cfg, bad, 3)
    item('replay rejects a corrupted refresh expectation',
         any(m['cat'] == 'refresh' for m in r['mismatches']))
    bad = copy.deepcopy(h)
    for x in bad:
        for u in x['obs']['aFac']['ups']:
            u['mbs'] = [1]          # every update claims the first batch
    r = refreplay.replay(cfg, bad, 3)
    item('replay rejects a factor term over the wrong batches',
         any(m['cat'] in ('factor',) for m in r['mismatches'])
         or bool(r['mismatches']))


def vacuity() -> None:
    cfg = kaisa.Config(F=2, I=3, accum=2, in_hook=True,
                       sched={'lr': 'half', 'inv_update_steps': 'dbl'})
    from harness.progs import instantiate
    name = 'MC_KfacRefCov'
    mod = instantiate('KfacRef', name, refreplay.ref_constants(
        cfg, ['Train', 'Step', 'Eval', 'Reset', 'FwdOnly', 'Save', 'Load',
              'Mem', 'Sched'], [1, 2], [-1, 1], 6))
    r = run_tlc(name, cfg_text='SPECIFICATION Spec\nVIEW view\n'
                'INVARIANT TypeOK\nCHECK_DEADLOCK FALSE\n',
                extra_modules={name: mod}, workers=4, coverage=True,
                deadlock=False, timeout=900)
    want = ['Train', 'FwdOnly', 'EvalPass', 'ResetBatch', 'StepOK',
            'StepRaises', 'SchedStep', 'Save', 'Load', 'MemoryUsage']
    missing = [a for a in want
               if not any(k.endswith('.' + a) and v > 0
                          for k, v in r.coverage.items())]
    item('every KfacRef action is taken in the bounded model', not missing,
         f'missing {missing}' if missing else f'{r.distinct} states')


def confluence_binding() -> None:
    from harness import confluence as c
    j = c.batches('quick', 1)[1]
    r = c.check_batch(j)
    item('Comm is persistent + commutative on small-scope program sets',
         r['ok'], f"{r.get('program_sets')} program sets, "
         f"{r.get('diamonds')} diamonds")
    r = c.check_batch(j + ((
        "completed[Op(r).g] >= Op(r).i\n    /\\ pc'",
        "completed[Op(r).g] = Op(r).i\n    /\\ pc'"),))
    item('confluence check rejects a Wait that Complete can disable',
         not r['ok'], str(r.get('why')))
    r = c.check_batch(j + ((
        "/\\ inflight' = [inflight EXCEPT ![g] = Tail(@)]",
        "/\\ inflight' = [inflight EXCEPT ![g] = <<>>]"),))
    item('confluence check rejects a Complete that drops later slots',
         not r['ok'], str(r.get('why')))


def main() -> int:
    comm_binding()
    confluence_binding()
    kfacdist_binding()
    gptdist_binding()
    trace_binding()
    kfacref_binding()
    vacuity()
    bad = [n for n, ok, _ in RESULTS if not ok]
    print(f'{len(RESULTS) - len(bad)}/{len(RESULTS)} passed')
    return 1 if bad else 0


if __name__ == '__main__':
    sys.exit(main())
