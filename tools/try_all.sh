#!/bin/sh
# tools/try_all.sh <patch.diff> [tag]: apply a patch to a scratch worktree and run ALL 20
# quick checks against it (3 at a time). Used for behaviour-preserving refactorings: any
# VIOLATION is a false alarm, any exit 2 a robustness gap of the harness.
patch="$(readlink -f "$1")"; tag=${2:-a}
wt=/tmp/all_repo_$tag; out=/tmp/all_out_$tag
[ -d $wt ] || git -C /repo worktree add -q --detach $wt HEAD
mkdir -p $out
git -C $wt checkout -q -- . ; git -C $wt apply "$patch" || { echo "patch does not apply"; exit 2; }
cd "$(dirname "$(readlink -f "$0")")/.."
for c in C01 C02 C03 C04 C05 C06 C07 C08 C09 C10 C11 C12 C13 C14 C15 C16 C17 C18 C19 C20; do echo $c; done | \
  xargs -P 3 -I{} sh -c "o=\$(VERIF_REPO=$wt VERIF_OUT=$out ./check {} --tier quick 2>&1); rc=\$?; echo \"{} rc=\$rc \$(echo \"\$o\" | grep -c '^VIOLATION') violations\"; if [ \$rc -ne 0 ]; then echo \"\$o\" | grep -E -A1 '^(VIOLATION|MACHINERY)' | head -4 | cut -c1-400; echo \"\$o\" | grep -E 'Error|Traceback' -A3 | tail -8 | cut -c1-300; fi"
git -C $wt checkout -q -- .
