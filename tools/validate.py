"""Validate MANIFEST.json and evidence files against the schemas (python3-vt)."""
import glob
import json
import sys

import jsonschema

ok = True
m = json.load(open('/verif/MANIFEST.json'))
jsonschema.validate(m, json.load(open('/root/.vp/MANIFEST.schema.json')))
es = json.load(open('/root/.vp/EVIDENCE.schema.json'))
props = [json.loads(l)['id'] for l in open('/verif/properties.jsonl')]
claimed = {c['property_id'] for c in m['checks']}
na = {c['property_id'] for c in m.get('not_applicable', [])}
for p in props:
    if (p in claimed) == (p in na):
        print('property', p, 'claimed/not_applicable inconsistent')
        ok = False
for c in m['checks']:
    try:
        jsonschema.validate(json.load(open('/verif/' + c['evidence_file'])), es)
    except Exception as e:  # noqa: BLE001
        print('evidence invalid', c['property_id'], str(e)[:300])
        ok = False
print('valid' if ok else 'INVALID')
sys.exit(0 if ok else 1)
