"""Regenerate /verif/MANIFEST.json from the table below (run with any python)."""
import json

ALL = [f'C{i:02d}' for i in range(1, 21)]

CHECKS = {
 'C13': dict(
  category='model_checking',
  text='spec/KfacDist.tla derives, from a configuration, the assignment facts and a history (per-call facts from a KfacRef.tla behaviour), the exact sequence of K-FAC-owned collectives each rank issues (factor allreduces with bucket fusion and symmetric packing, second-order broadcasts per method inside the gradient-worker column, gradient broadcasts inside receiver rows, load-time broadcasts) and states the clauses of C13 as predicates over per-rank issue sequences; for cases stratified over the KfacConfig.tla lattice (W in {2,4}, all k, methods, prediv, symmetry, capacity classes; histories with save/load/memory queries, F != I, accumulation, hook/step updating) the real code runs on simdist and TLC evaluates the clauses on the derived programs (design), on the RECORDED sequences (decision), HoldersOK (second-order data exactly on gradient workers after every step) and Conforms (recorded == derived; drift note only); memory_usage totals vs bytes of tensors reachable from the layers.',
  ref='DESIGN.md 4.5, 5 (C13)',
  note='float64 parameters / float32 second-order data so broadcasts are classified by dtype; receiver rows from the grid formula established by C06.',
  technique='TLA+ spec (KfacDist.tla) evaluated by TLC on recorded executions (trace checking) and on the derived protocol; conformance recorded == derived'),
 'C11': dict(
  category='model_checking',
  text='Reference machine spec/KfacRef.tla; TLC-generated behaviours (strict discipline, multi-step, F != I, accumulation, eval) are executed by the real GPTNeoXKFACPreconditioner on simdist with Megatron-style column-/row-parallel layers over (D, M) in {(1,2),(2,1),(2,2),(1,3)} (thorough: up to (4,2)), bias on/off per layer kind, clipping active/inactive, 3 bucket capacity classes, symmetry; terms are interpreted on the UNSHARDED layers over the union batch: assembled shards of every rank vs the unsharded gradient (clip included), factors on the inverse worker vs unsharded factors, bit-identical data-parallel replicas / replicated parameters / schedules; Comm.tla invariants monitored at run time and model-checked by TLC over extracted programs.',
  ref='DESIGN.md 4.6, 5 (C11)',
  note='DeepSpeed and Megatron are replaced by harness stubs (topology grid, PipelineModule, the two layer classes); pipeline stages = 1 for value-level runs.',
  technique='TLA+ specs (KfacRef.tla reference, GptDist.tla protocol derivation, Comm.tla) + TLC; reference behaviours executed on a simulated 2-D world against interpreted unsharded terms; recorded collective sequences trace-checked against GptDist.tla'),
 'C12': dict(
  category='model_checking',
  text='spec/GptAssign.tla (row-major pipe x data x model coordinates, per-stage greedy, inverse worker, factor worker, gradient source, gradient workers, new_group calls) with the clauses of C12 as invariants model-checked by TLC over every topology with P<=2, D,M<=3, world<=12 (thorough P<=3, D,M<=4, world<=16) and all cost dictionaries over {0,1,2} with <=2 (3) layers per stage; every TLC state replayed: one real GPTNeoXAssignment per rank with the topology stub, all public queries and the new_group call sequence compared.',
  ref='DESIGN.md 4.6, 5 (C12)',
  note='DeepSpeed topology stub.',
  technique='TLA+ spec (GptAssign.tla) + TLC state enumeration, one implementation test per state and rank'),
 'C18': dict(
  category='model_checking',
  text='Behaviours of spec/KfacRef.tla over {Train, Step, Save, Load} (every step boundary after the first factor update as checkpoint position, with/without factors, compute_inverses on/off) executed by the real GPTNeoXKFACPreconditioner on simdist for (D, M) in {(1,1),(2,1),(1,2),(2,2)} (thorough up to (4,1),(3,2),(2,3)), in-memory and directory mode: every rank\'s saved state holds every layer\'s factors exactly as on its inverse worker / one file per layer; restored factors, second-order data on the inverse worker, every later step equal to the term; Comm.tla invariants at run time + TLC over extracted programs.',
  ref='DESIGN.md 4.6, 5 (C18)',
  note='Stubs as C11; saving requires existing factors (the code asserts it); directory-mode loads are preceded by a harness barrier (restart); pipeline stages 1, 2 and 4 (stages are independent sub-models; clipping inactive when P > 1).',
  technique='TLA+ specs (KfacRef.tla, GptDist.tla save/load clauses, Comm.tla) + TLC; checkpoint behaviours executed on a simulated world; recorded collective sequences trace-checked against GptDist.tla'),
 'C14': dict(
  category='model_checking',
  text='spec/Triu.tla: PackOrder(n), closed-form position, bijection onto the upper triangle and Unpack(Pack(M)) = M for symmetric M with position-revealing entries, model-checked by TLC for every n <= 24 (40); get_triu of a position-revealing matrix must list exactly PackOrder(n) (n up to 128 (512) with the same definition), fill_triu(get_triu(M)) == M bit-wise for 4 floating dtypes and contiguous / strided / transposed inputs; symmetric allreduce, broadcast and allreduce_bucketed on simdist equal the dense ones and transfer n(n+1)/2 elements; non-square / non-2-D tensors raise NonSquareTensorError with an empty event trace.',
  ref='DESIGN.md 4.7, 5 (C14)',
  note='Beyond the TLC bound the order comes from the same definition evaluated in python.',
  technique='TLA+ spec (Triu.tla) + TLC; index map replayed into get_triu / fill_triu and the communicator on simdist'),
 'C15': dict(
  category='model_checking',
  text='spec/Layout.tla: conv patch index map, feature order = combined-gradient column order = weight.view(out,-1) order, bias column last, factor shapes, with PatchInjective / FeatureIsColumn / IndicesValid checked by TLC over all geometry tuples in scope (1024 quick; rectangular kernels, strides, paddings, sizes not divisible by the stride, bias on/off); for each tuple the real Conv2dModuleHelper is compared with the emitted index map (position-revealing inputs), with torch unfold, with the column map (position-revealing gradients), set_grad(get_grad()) identity, advertised vs produced factor shapes, and the float64 identity grad = sum outer(g-row, patch-row); linear helpers for inputs of rank 2..4.',
  ref='DESIGN.md 4.7, 5 (C15)',
  note='dilation 1, groups 1; small spatial sizes.',
  technique='TLA+ spec (Layout.tla) + TLC tuple enumeration, one implementation test per state'),
 'C19': dict(
  category='model_checking',
  text='spec/Sched.tla (six parameters, every subset scheduled, distinct dyadic factor function per parameter, explicit / implicit step argument, int() truncation, refusal of callables, exponential-decay schedule as a rational function with range and monotonicity) model-checked by TLC; every maximal behaviour to depth 4 (5) replayed on a real LambdaParamScheduler + KFACPreconditioner with all six properties compared exactly after every action; exp_decay_factor_averaging compared with the rational value for 8 caps and k < 200 (5000).',
  ref='DESIGN.md 4.7, 5 (C19)',
  note='Factor functions restricted to a dyadic family so that float arithmetic is exact.',
  technique='TLA+ spec (Sched.tla) + TLC path enumeration with exact lock-step replay'),
 'C20': dict(
  category='model_checking',
  text='spec/Tracing.tla (trace table state machine: calls that return / raise, get(average, max_history), clear, two functions sharing a name) with its properties model-checked by TLC; all maximal behaviours to depth 4 and simulated behaviours to depth 9 (14) replayed into kfac.tracing under a scripted dyadic clock: identity of return values and exceptions, exact statistics, key order.',
  ref='DESIGN.md 4.7, 5 (C20)',
  note='max_history = 0 is outside the domain; sync=True barriers not exercised.',
  technique='TLA+ spec (Tracing.tla) + TLC behaviours replayed with a scripted clock'),
 'C02': dict(
  category='model_checking',
  text='spec/KfacConfig.tla enumerates the configuration lattice with the constructor\'s acceptance rule (TLC; every tuple in a sample is replayed into the real constructor on pretended ranks); for valid distributed configurations (stratified over W, k, method, prediv, colocate; bucket capacity classes, symmetry, heuristics) TLC-generated behaviours of the reference machine spec/KfacRef.tla (strict iteration discipline, multi-step, F != I, accumulation, eval passes) are executed by the real KFACPreconditioner on simdist; per step every rank\'s gradients must equal the reference term interpreted over the union batch (refinement to KfacRef at step boundaries), be bit-identical across ranks and across 3 scheduling policies, equal a REAL single-process run on the union batch (5e-4), with no in-flight buffer modification and no communication monitor.',
  ref='DESIGN.md 4.5, 5 (C02)',
  note='W in {2,4} quick (up to 8 thorough); sampled real-valued data; union-run arrangement: loss sum / local batch size, driver-side gradient averaging.',
  technique='TLA+ specs (KfacConfig.tla lattice, KfacRef.tla reference) + TLC; reference behaviours executed on a simulated world and compared with interpreted terms, across ranks, schedules and a real union-batch run'),
 'C08': dict(
  category='model_checking',
  text='spec/Bucket.tla (communicator on a 2x2 world with distinct equal-size row/column groups; bucket keyed by group and dtype, python-dict flush order) with ExactlyOnce / CapRespected / NothingPending / ReducedInRequestedGroup / OneDtypePerWireOp / WireMatches model-checked by TLC over all programs of <=3 (4) calls and simulated to 6 (7) calls for capacities below one tensor, between and above all; the pinned behaviours (key by size, mixed dtypes) are constants of the spec and TLC produces their counterexamples; every emitted program is executed by a real TorchDistributedCommunicator per rank on simdist (2 schedules) and unbucketed in a twin world: value, shape, dtype of every future, bytes on the wire, capacity, rejection of non-square symmetric tensors, and the wire sequence vs the spec.',
  ref='DESIGN.md 4.2, 5 (C08)',
  note='Tensor contents are position/id/rank revealing and exactly representable; 4 ranks only.',
  technique='TLA+ spec (Bucket.tla) + TLC program enumeration; each program executed against a real communicator and an unbucketed twin'),
 'C01': dict(
  category='model_checking',
  text='spec/KfacRef.tla determines for every step of every history which factor versions, which damping (refresh-time vs use-time) and which clip scale enter the step; TLC-enumerated behaviours are replayed into the real KFACPreconditioner over a lattice of layer types (linear, conv with rectangular kernel/stride/padding, N-d inputs, bias on/off) x methods (inverse, eigen, pre-divided eigen) x parameter/factor/inverse dtypes, and for every registered layer at every step the final gradient is compared with nu times the float64 solution of the defining Kronecker system (factors PSD for eigen) and the residual of that system is evaluated for the implementation\'s own V.',
  ref='DESIGN.md 3.5, 4.4, 5 (C01)',
  note='TLC decides the discrete structure (operands, versions, order); agreement of the float computation with the term is established on sampled real-valued inputs (tolerance 2e-4 x conditioning; bf16 x400). Exact-rational Precond.tla is not built (see DESIGN.md 7).',
  technique='TLA+ spec (KfacRef.tla) + TLC-generated behaviours replayed; independent float64 solve of the defining system'),
 'C07': dict(
  category='model_checking',
  text='spec/KfacRef.tla: the step term is Scale(nu, Pre(...)) with ONE nu = Clip(kl@steps, lr@steps) over all layers, or unscaled when kl_clip is None; TLC-generated behaviours (clip active / inactive / callable / None / scheduler-driven) replayed at W=1 and W in {2,4} under all strategies with gradients compared to the interpreted term; direct checks on real executions: final = nu * unclipped with one positive scalar for all layers and ranks, nu = min(1, sqrt(kl/|vg|)), nu^2 lr^2 |vg| <= kl, zero gradient -> nu = 1, kl_clip=None == unclipped.',
  ref='DESIGN.md 5 (C07)',
  note='GPT-NeoX model-parallel clipping is part of C11; GPT-NeoX pipeline-parallel clipping is checked here and is the open known finding F12 (known_findings.json). Real-valued data sampled.',
  technique='TLA+ spec (KfacRef.tla) + TLC behaviours replayed on simdist; direct consequence checks on executions'),
 'C09': dict(
  category='model_checking',
  text='spec/KfacRef.tla Save / Load-into-fresh-machine actions with the RoundTrip action property checked by TLC; all maximal paths over {Train, Step, Save(with/without factors), Load(compute_inverses on/off)} to depth 5 (7) -- every step boundary as checkpoint position -- replayed into the real code (state through torch.save/load, fresh model copy + fresh preconditioner) at W=1 and W in {2,4} for all strategies: exact (bit-wise) restoration of steps, scalars, factors on every rank; second-order data present exactly on gradient workers iff recomputed; decomposition counts; every later step\'s gradients equal the term (live inverse vs Inv(restored factors)); layer-count mismatch rejected.',
  ref='DESIGN.md 4.4, 5 (C09)',
  note='Equivalence with the uninterrupted run is decided through the spec terms (both runs compared to their terms, which coincide under the stated condition); the twin-machine formulation of ResumeEq inside TLC is not built yet.',
  technique='TLA+ spec (KfacRef.tla) + TLC path enumeration with lock-step replay on simdist'),
 'C10': dict(
  category='model_checking',
  text='Frame conditions of spec/KfacRef.tla (EvalFrame, QueryFrame, step frame) checked by TLC; module trees generated by spec/Register.tla (unsupported leaves with parameters/buffers, frozen, skipped, shared) are built for real and driven through forward/backward without and with K-FAC (bit-wise equal outputs and gradients), eval passes (K-FAC state digest unchanged) and two steps (all parameter values, buffers and unregistered gradients bit-wise unchanged; registered gradients keep shape/dtype/device/contiguity and stay finite) under 5 dtype/method variants.',
  ref='DESIGN.md 5 (C10)',
  note='CPU only; trees within Register.tla scope (<=3 (4) leaves, depth 2).',
  technique='TLA+ specs (KfacRef.tla frame properties, Register.tla tree generation) + TLC; each generated tree executed against frame predicates'),
 'C16': dict(
  category='model_checking',
  text='spec/Register.tla (depth-first traversal, instance de-duplication, requires_grad of all parameters, regex search on qualified name and class name) with OncePerInstance / ExactlyEligible / UniqueNames / Monotone model-checked by TLC over all trees of <=2 leaves (6 kinds, 3 frozen modes, shared instances, 6 patterns) and simulated for 3 (5) leaves; every TLC state is built as a real module tree and registered by KFACPreconditioner: names in order, instances, and hook counts on every module compared.',
  ref='DESIGN.md 4.7, 5 (C16)',
  note='Regex family limited to literals with "." wildcard and ^/$ anchors; GPT-NeoX variant covered by the C11/C12 stubs.',
  technique='TLA+ spec (Register.tla) + TLC state enumeration, one implementation test per state'),
 'C04': dict(
  category='model_checking',
  text='spec/KfacRef.tla fixes for every history which micro-batches enter which EMA update with which decay (Ema/Mean terms, identity start, per-factor accumulation, eval frame); TLC enumerates all maximal paths to depth 5 (6) for 13 (17) configuration families (linear, conv with rectangular kernel/stride/padding, N-d linear inputs, no-bias, decay constant/callable/exp_decay_factor_averaging, accumulation 1..3, hook/step updating, loss scales, factor dtypes) and each behaviour is replayed into the real code -- W=1 and, under the iteration discipline, W in {2,4} on simdist with all strategies (Mean over all ranks) -- comparing the factors of every layer on every rank after every action with a float64 recomputation from driver-captured tensors, plus symmetry, PSD and dtype.',
  ref='DESIGN.md 4.4, 5 (C04)',
  note='Real-valued inputs are sampled (seeded); factor tolerance 2e-5 relative. CUDA GradScaler objects are out of reach (callable scaler used).',
  technique='TLA+ spec (KfacRef.tla) + TLC path enumeration with lock-step replay; float64 term interpretation'),
 'C05': dict(
  category='model_checking',
  text='spec/KfacRef.tla (sequential K-FAC reference machine over symbolic terms) with the interval / schedule clauses as action properties, model-checked by TLC exhaustively to a depth for ~18 configuration families (interval pairs incl. non-multiples and callables, hook/no-hook, accumulation, callable and scheduler-driven hyper-parameters, reset / forward-only / checkpoint interleavings); every behaviour TLC enumerates (all maximal paths for small alphabets, -simulate for the 9-action alphabet) is replayed in lock step into the real KFACPreconditioner and steps, the six hyper-parameters, factors, refresh events and gradients are compared after every action (terms interpreted in float64 by solving the defining system).',
  ref='DESIGN.md 4.4, 5 (C05)',
  note='W=1 reference machine (distributed equivalence is C02). Real-valued data is sampled (one seeded model/data per run); tolerance 2e-4 relative scaled by conditioning. Usage assumption: step only when gradients exist.',
  technique='TLA+ spec (KfacRef.tla) + TLC (action properties, exhaustive path enumeration / simulation) with lock-step replay of every generated behaviour; trace validation (KfacTrace.tla) of executions recorded from the repository\'s own training loop and random API drivers'),
 'C03': dict(
  category='model_checking',
  text='spec/Comm.tla (collective matching, membership, new_group agreement, no stall) is model-checked by TLC over the per-rank issue/wait programs extracted from real executions of KFACPreconditioner on a simulated torch.distributed (all interleavings for small programs, partial-order-reduced / linearised for long ones, reductions cross-checked); the same invariants are evaluated at run time on every execution under 4 scheduling policies, and TLC-simulated behaviours of Comm are replayed as explicit schedules into the real code.',
  ref='DESIGN.md 3.4, 4.1, 5 (C03)',
  note='Trusted: simdist\'s implementation of the torch.distributed contract; programs are schedule independent (checked on every case); configurations/histories are a sampled lattice (W in {2,4} quick, up to 8 thorough).',
  technique='TLA+ spec (Comm.tla) + TLC over programs extracted from real executions; run-time invariant monitors; TLC-generated schedules replayed into the code'),
 'C06': dict(
  category='model_checking',
  text='spec/KfacAssign.tla: grid partition, greedy placement and per-rank views with the clauses of C06 as invariants, model-checked by TLC over the whole argument space in small scope (every W<=4 (6), every divisor, colocate, every cost dictionary over a small cost set, <=3 layers) and a wide scope (W<=32 (96)); every emitted state is replayed into W real KAISAAssignment objects and all public queries are compared; acceptance of every k/W (W<=256 (512)) through KAISAAssignment and KFACPreconditioner (float, enum and 0 spellings).',
  ref='DESIGN.md 4.3, 5 (C06)',
  note='Exhaustive only inside the stated scopes; cost values beyond the small set only through the C17 random property instances.',
  technique='TLA+ spec (KfacAssign.tla) + TLC state enumeration, one implementation test per TLC state'),
 'C17': dict(
  category='model_checking',
  text='spec/KfacAssign.tla Greedy with completeness / confinement / balance bound / load consistency as invariants, model-checked by TLC over every labelling of W<=3 (4) ranks into <=3 groups (members ascending or descending), colocate on/off, <=3 (4) layers of 1..3 factors with small costs; every TLC state replayed into KAISAAssignment.greedy_assignment with exact equality of the placement (twice, determinism); random large instances checked against the clauses only.',
  ref='DESIGN.md 4.3, 5 (C17)',
  note='Exact LPT order is decided only inside TLC\'s scope; beyond it the property clauses are checked on the returned placement without a second implementation.',
  technique='TLA+ spec (KfacAssign.tla) + TLC state enumeration replayed into the pure function'),
}


# additions of the last session (appended to the level text of each check)
EXTRA = {
 'C01': ' Direct cases with running factors that are NOT positive semi-definite (restored through a state_dict round trip): the gradient must solve the defining system for the factors state_dict() reports, taken PSD for the eigen method.',
 'C02': ' Lone-sender cases (one registered bias-free layer, no clipping, no driver-side averaging, gradient tensors kept): no send buffer of a pending collective may be written (in-flight-write monitor) under three completion policies.',
 'C03': ' The persistence / commutation lemma the reduced Comm configurations (SpecPOR, SpecLIN) rest on is decided on TLC state graphs of the unreduced Next for every program set of a small scope, well-formed and ill-formed (harness/confluence.py). Cases with ill-conditioned factors (large inputs): the collectives issued must not depend on the data.',
 'C04': ' Models with an N-d Linear whose input / output gradient is non-contiguous (transposed activations).',
 'C05': ' Save / Rollback (load into the same instance) inside an accumulation window and between the passes and the step.',
 'C07': ' Cases with an indefinite preconditioner (negative sum <V, D>): the bound is stated with the absolute value.',
 'C08': ' Roles worldx / rowx: several HANDLES (None, explicit all-ranks group, two new_group results) over the same ranks share one bucket.',
 'C09': ' Models whose registration order differs from the lexicographic order of the layer names.',
 'C10': ' The global random state after a forward/backward with K-FAC registered equals the one without (large feature maps followed by Dropout).',
 'C13': ' W = 1 with torch.distributed INITIALISED is part of the lattice (the derived program is empty) and a dedicated sub-check: no collective at all, results equal to the run without torch.distributed.',
 'C16': ' Child names are data of the instance (SegTable: module, submodule, 0 ...); kinds homact / homlin: classes named Linear that are not torch.nn.Linear.',
 'C19': ' Variable fnkind: a function-valued parameter given as lambda, functools.partial, callable object or bound method is refused alike.',
}
for _k, _t in EXTRA.items():
    CHECKS[_k]['text'] = CHECKS[_k]['text'] + _t


def main():
    m = {
        'version': 1,
        'setup_cmd': 'true',
        'hooks': {
            'guard': 'KFAC_PYTORCH_VERIF',
            'enable': 'no in-repo hooks: instrumentation is external monkey-patching of torch.distributed / torch futures at check time (harness/simdist.py)',
            'baseline_off_cmd': 'cd /repo && /venv/bin/python -m pytest -ra -q -p no:cacheprovider --timeout=900 --continue-on-collection-errors',
            'source_commits': [],
            'add_only': True,
        },
        'engines': [
            {'name': 'tlc', 'path': '/opt/veriftools/tla/tla2tools.jar',
             'serves_properties': sorted(CHECKS),
             'kind_free_text': 'TLC 1.8 explicit-state model checker over spec/*.tla'},
            {'name': 'simdist', 'path': 'harness/simdist.py',
             'serves_properties': [p for p in sorted(CHECKS) if p in
                                   ('C02', 'C03', 'C04', 'C05', 'C07', 'C08', 'C09', 'C11', 'C13', 'C14', 'C18')],
             'kind_free_text': 'in-process scheduler-controlled torch.distributed replacement used to record/replay executions of the real kfac code'},
        ],
        'checks': [],
        'not_applicable': [],
        'notes': 'Model-based verification with explicit TLA+ specifications (spec/), TLC, and a conformance harness (harness/). See DESIGN.md. Genuine defects found: see known_findings.json (11 repaired by fix: commits, 1 open known finding F12 reported by ./check C07 as KNOWN-FINDING).',
    }
    for p in ALL:
        if p in CHECKS:
            c = CHECKS[p]
            m['checks'].append({
                'property_id': p,
                'quick_cmd': f'./check {p} --tier quick',
                'thorough_cmd': f'./check {p} --tier thorough',
                'evidence_file': f'evidence/{p}.json',
                'replay_cmd_template': f'./check {p} --replay {{path}}',
                'engine': 'tlc',
                'level_claimed': {'category': c['category'], 'text': c['text'], 'design_ref': c['ref']},
                'level_note': c['note'],
                'technique': c['technique'],
            })
        else:
            m['not_applicable'].append({'property_id': p, 'reason': 'check under construction in this round (DESIGN.md section 11 build order); not yet claimed'})
    json.dump(m, open('/verif/MANIFEST.json', 'w'), indent=1)


if __name__ == '__main__':
    main()
