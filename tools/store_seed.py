"""store_seed.py <id> <wave> <caught_by csv> <missed_at_first yes|no> <strengthening text>
Copy a verified seeded change from /tmp/seed_<id>/ to /verif/seeded/<id>-agent<wave>/."""
import json, shutil, sys, os
sid, wave, caught, missed, strength = sys.argv[1:6]
src = f'/tmp/seed_{sid}'
dst = f'/verif/seeded/{sid}-agent{wave}'
os.makedirs(dst, exist_ok=True)
for f in ('patch.diff', 'demo_test.py'):
    shutil.copy(f'{src}/{f}', f'{dst}/{f}')
m = json.load(open(f'{src}/meta.json'))
ver = open(f'{src}/verify_suite.log').read().strip().splitlines()[-1] \
    if os.path.exists(f'{src}/verify_suite.log') else ''
m.update({'verified_by_me': {'suite_with_change': ver,
                             'demo_clean': 'pass', 'demo_with_change': 'fail'},
          'caught_by': [c for c in caught.split(',') if c],
          'missed_at_first': missed == 'yes', 'strengthening': strength})
json.dump(m, open(f'{dst}/meta.json', 'w'), indent=1)
print('stored', dst)
