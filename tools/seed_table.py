"""Regenerate the seeded-changes table of DESIGN.md (section 12.5) from
seeded/*/meta.json.  Run: python3 tools/seed_table.py"""
import glob, json, os, re
rows = []
for d in sorted(glob.glob('/verif/seeded/*/')):
    m = json.load(open(d + 'meta.json'))
    sid = os.path.basename(d.rstrip('/'))
    what = (m.get('breaks') or m.get('summary') or m.get('description') or '')
    what = re.sub(r'\s+', ' ', str(what)).replace('|', '/')[:150]
    cb = m.get('caught_by', [])
    cb = '; '.join(cb) if isinstance(cb, list) else str(cb)
    st = re.sub(r'\s+', ' ', str(m.get('strengthening') or '')).replace('|', '/')[:200]
    rows.append(f"| {sid} | {m.get('property', sid[:3])} | {what} | {cb.replace('|', '/')} | "
                f"{'yes' if m.get('missed_at_first') else 'no'} | {st or 'none needed'} |")
hdr = ('| seed | property | what the change does | caught by | missed at first | strengthening |\n'
       '|---|---|---|---|---|---|\n')
table = hdr + '\n'.join(rows) + '\n'
p = '/verif/DESIGN.md'
s = open(p).read()
if '<!-- SEED-TABLE-BEGIN -->' in s:
    s = re.sub(r'<!-- SEED-TABLE-BEGIN -->.*?<!-- SEED-TABLE-END -->',
               lambda _: '<!-- SEED-TABLE-BEGIN -->\n' + table + '<!-- SEED-TABLE-END -->', s, flags=re.S)
else:
    i = s.index('| seed | property | what the change does')
    j = s.index('\n\n', i)
    s = s[:i] + '<!-- SEED-TABLE-BEGIN -->\n' + table + '<!-- SEED-TABLE-END -->' + s[j:]
n = len(rows)
missed = sum(1 for r in rows if '| yes |' in r)
s = re.sub(r'### 12\.5 Seeded changes \(\d+, written by independent sub-agents in \w+ waves\)',
           f'### 12.5 Seeded changes ({n}, written by independent sub-agents in fifteen waves)', s)
open(p, 'w').write(s)
print(n, 'rows;', missed, 'missed at first')
