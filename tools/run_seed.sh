#!/bin/sh
# tools/run_seed.sh <patch.diff> <check ids...> : apply a seeded change to /repo,
# run the quick checks, revert. Prints one line per check.
patch="$(readlink -f "$1")"; shift
cd /repo || exit 2
git diff --quiet || { echo "/repo not clean"; exit 2; }
git apply "$patch" || { echo "patch does not apply"; exit 2; }
for id in "$@"; do
  out=$(cd /verif && ./check "$id" --tier quick 2>&1)
  rc=$?
  echo "$id rc=$rc $(echo "$out" | grep -c '^VIOLATION') violations"
  echo "$out" | grep -A1 '^VIOLATION' | head -6 | cut -c1-300
done
git -C /repo checkout -- . 
git -C /repo status --short | head -3
