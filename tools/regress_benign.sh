#!/bin/sh
# tools/regress_benign.sh [ids...]: run ALL quick checks against every stored
# behaviour-preserving refactoring (benign/<id>/patch.diff), each applied to a scratch
# worktree. Any VIOLATION is a false alarm; exit 2 a robustness gap. Prints a summary line
# per refactoring.
cd "$(dirname "$(readlink -f "$0")")/.." || exit 2
[ $# -eq 0 ] && set -- $(ls benign)
for b in "$@"; do
  tools/try_all.sh benign/$b/patch.diff rb > /tmp/regress_benign_$b.log 2>&1
  ok=$(grep -c "rc=0" /tmp/regress_benign_$b.log)
  echo "$b: $ok/20 quiet $(grep 'rc=' /tmp/regress_benign_$b.log | grep -v 'rc=0' | tr '\n' ' ')"
done
