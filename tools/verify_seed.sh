#!/bin/sh
# verify_seed.sh <id>: confirm demo passes clean, fails with patch, suite passes with patch
id=$1; wt=/tmp/vwt_$id; sd=/tmp/seed_$id; git -C /repo worktree add -q $wt HEAD 2>/dev/null
cd $wt || exit 2
git checkout -q -- . ; git clean -fdq
demo=$(ls $sd/demo_test.py $sd/demo.py 2>/dev/null | head -1)
/venv/bin/python -m pytest -q -p no:cacheprovider --timeout=600 $demo > $sd/verify_clean.log 2>&1; c=$?
git apply $sd/patch.diff || { echo "$id APPLY-FAIL"; exit 1; }
/venv/bin/python -m pytest -q -p no:cacheprovider --timeout=600 $demo > $sd/verify_patched.log 2>&1; p=$?
/venv/bin/python -m pytest -q -p no:cacheprovider --timeout=900 > $sd/verify_suite.log 2>&1; s=$?
git checkout -q -- . ; git clean -fdq
git -C /repo worktree remove --force $wt 2>/dev/null; echo "$id demo_clean_rc=$c demo_patched_rc=$p suite_patched_rc=$s $(tail -1 $sd/verify_suite.log)"
