#!/bin/sh
# tools/try_seed.sh <patch.diff> <check ids...>: like run_seed.sh but against a scratch
# worktree (/tmp/dbg_repo), so /repo stays untouched and other work can go on.
patch="$(readlink -f "$1")"; shift
wt=/tmp/dbg_repo${TRY_TAG}; out=/tmp/dbg_out${TRY_TAG}
[ -d $wt ] || git -C /repo worktree add -q --detach $wt HEAD
mkdir -p $out
git -C $wt checkout -q -- . ; git -C $wt apply "$patch" || { echo "patch does not apply"; exit 2; }
cd "$(dirname "$(readlink -f "$0")")/.."
for id in "$@"; do
  o=$(VERIF_REPO=$wt VERIF_OUT=$out ./check "$id" --tier quick 2>&1); rc=$?
  echo "$id rc=$rc $(echo "$o" | grep -c '^VIOLATION') violations"
  echo "$o" | grep -A1 '^VIOLATION' | head -4 | cut -c1-300
  [ $rc -eq 2 ] && echo "$o" | tail -5
done
git -C $wt checkout -q -- .
